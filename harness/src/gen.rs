//! Scenario generators, one per property.  A scenario is a list of lines: broker set-up commands,
//! harness directives (`H …`) and operations (`OP …`).  Every random choice comes from the `Rng`.
use std::collections::BTreeMap;

use crate::lean::hex;
use crate::rng::Rng;

pub type Dist = BTreeMap<String, u64>;

pub fn bump(d: &mut Dist, k: &str) {
    *d.entry(k.to_string()).or_insert(0) += 1;
}

pub fn h(s: &str) -> String {
    hex(s.as_bytes())
}

pub struct Topic {
    pub name: String,
    /// leader node id per partition (−1 = none)
    pub leaders: Vec<i32>,
}

pub struct Cluster {
    pub brokers: Vec<(i32, String, i32)>,
    pub topics: Vec<Topic>,
}

impl Cluster {
    /// 1–3 brokers, 1–3 topics with names that sort around each other, 1–`maxp` partitions, some leaderless
    pub fn random(rng: &mut Rng, maxp: u64, leaderless: bool) -> Cluster {
        let nb = 1 + rng.below(3) as i32;
        let brokers: Vec<(i32, String, i32)> = (1..=nb).map(|i| (i, format!("b{}", i), 9092)).collect();
        let pool = ["t", "ta", "tb", "T", "u", "t-1", "tä", "a.b", "zz"];
        let nt = 1 + rng.below(3) as usize;
        let mut names: Vec<String> = Vec::new();
        while names.len() < nt {
            let n = rng.pick(&pool).to_string();
            if !names.contains(&n) {
                names.push(n);
            }
        }
        let topics = names
            .into_iter()
            .map(|name| {
                let np = 1 + rng.below(maxp) as usize;
                let leaders = (0..np)
                    .map(|_| if leaderless && rng.chance(1, 6) { -1 } else { 1 + rng.below(nb as u64) as i32 })
                    .collect();
                Topic { name, leaders }
            })
            .collect();
        Cluster { brokers, topics }
    }

    pub fn setup_lines(&self) -> Vec<String> {
        let mut out = Vec::new();
        for (id, host, port) in &self.brokers {
            out.push(format!("BROKER {} {} {}", id, h(host), port));
        }
        for t in &self.topics {
            out.push(format!("TOPIC {} {}", h(&t.name), t.leaders.len()));
            for (p, l) in t.leaders.iter().enumerate() {
                if *l >= 0 {
                    out.push(format!("LEADER {} {} {}", h(&t.name), p, l));
                }
            }
        }
        out.push(format!("COORD {}", self.brokers[0].0));
        out
    }

    pub fn bootstrap(&self) -> String {
        h(&format!("{}:{}", self.brokers[0].1, self.brokers[0].2))
    }

    pub fn all_hosts(&self) -> String {
        self.brokers.iter().map(|(_, hst, p)| h(&format!("{}:{}", hst, p))).collect::<Vec<_>>().join(",")
    }
}

pub fn key_of_len(rng: &mut Rng, n: usize) -> Vec<u8> {
    let mut k = rng.bytes(n);
    if n > 0 && k.iter().all(|b| *b == 0) {
        k[0] = 1;
    }
    k
}

/// C12: producers with the default partitioner over random metadata; explicit / keyed / keyless records,
/// interleaved over several topics, unknown topics, leaderless partitions, counter presets near the wrap.
pub fn gen_c12(rng: &mut Rng, d: &mut Dist, idx: u64) -> Vec<String> {
    // one history in seven: the producer is built from a client whose view of a topic went through a shrink (the topic was
    // re-created with fewer partitions and loaded again by name): N is the topic's current partition count
    if idx % 7 == 3 {
        bump(d, "producer-from-a-client-that-saw-the-topic-shrink");
        let n = 4 + rng.below(5) as usize;
        let m = 1 + rng.below(n as u64 - 1) as usize;
        let mut out = vec![format!("BROKER 1 {} 9092", h("b1")), format!("BROKER 2 {} 9092", h("b2")), format!("TOPIC {} {}", h("t"), n), format!("TOPIC {} 2", h("u")), "COORD 1".to_string()];
        for p in 0..n {
            out.push(format!("LEADER {} {} {}", h("t"), p, 1 + p % 2));
        }
        out.push(format!("LEADER {} 0 1", h("u")));
        out.push(format!("LEADER {} 1 2", h("u")));
        out.push(format!("OP client_new {}", h("b1:9092")));
        out.push("OP c load_metadata_all".into());
        out.push(format!("TOPIC {} {}", h("t"), m));
        if m > 2 && rng.chance(1, 2) {
            out.push(format!("LEADER {} 1 -1", h("t")));
        }
        out.push(if rng.chance(3, 4) { format!("OP c load_metadata {}", h("t")) } else { "OP c load_metadata_all".to_string() });
        out.push("OP producer_create client".into());
        let mut uniq = 0u32;
        for _ in 0..(2 + rng.below(3)) {
            let mut line = String::from("OP send_all");
            for _ in 0..(2 + rng.below(8)) {
                uniq += 1;
                let kl = 1 + rng.below(9) as usize;
                let key = if rng.chance(1, 2) { key_of_len(rng, kl) } else { vec![] };
                let t = if rng.chance(1, 5) { "u" } else { "t" };
                line.push_str(&format!(" {} -1 {} {}", h(t), if key.is_empty() { "-".to_string() } else { hex(&key) }, hex(&uniq.to_be_bytes())));
            }
            out.push(line);
        }
        return out;
    }
    let maxp = *rng.pick(&[1u64, 2, 3, 5, 8, 16, 64]);
    let cl = Cluster::random(rng, maxp, true);
    let mut out = cl.setup_lines();
    let mut opts = String::new();
    if rng.chance(1, 4) {
        let c = *rng.pick(&[0u64, 1, 7, 4294967293, 4294967294, 4294967295]);
        // counter presets whose run would cross the 32-bit wrap are the known finding D21; stay below it
        let c = if c > 4294967000 { c - 4294967000 } else { c };
        opts.push_str(&format!(" partitioner={}", c));
        bump(d, "counter-preset");
    }
    if rng.chance(1, 3) {
        opts.push_str(&format!(" compression={}", rng.below(3)));
    }
    out.push(format!("OP producer_create hosts={}{}", cl.bootstrap(), opts));
    let mut uniq = 0u32;
    let mut key_pool: Vec<Vec<u8>> = Vec::new();
    let nsend = 1 + rng.below(4);
    // a topic that appears on the cluster after the producer was built: the producer's client may load it, the partitioner's
    // view of the topics is the one taken at creation - records for it without a partition stay unassigned and are rejected
    let late_at = if rng.chance(1, 4) { Some(rng.below(nsend)) } else { None };
    let mut late = false;
    for send_no in 0..nsend {
        if late_at == Some(send_no) {
            bump(d, "topic-appears-after-creation");
            let n = 2 + rng.below(3);
            out.push(format!("TOPIC {} {}", h("late"), n));
            for p in 0..n {
                out.push(format!("LEADER {} {} {}", h("late"), p, rng.pick(&cl.brokers).0));
            }
            out.push(if rng.chance(1, 2) { "OP p load_metadata_all".to_string() } else { format!("OP p load_metadata {}", h("late")) });
            late = true;
        }
        let nrec = 1 + rng.below(8);
        let mut line = String::from("OP send_all");
        for _ in 0..nrec {
            uniq += 1;
            if late && rng.chance(1, 3) {
                let key = if rng.chance(1, 2) { key_of_len(rng, 3) } else { vec![] };
                line.push_str(&format!(" {} -1 {} {}", h("late"), hex(&key), hex(&uniq.to_be_bytes())));
                continue;
            }
            let t = if rng.chance(1, 25) { "nope".to_string() } else { rng.pick(&cl.topics).name.clone() };
            let np = cl.topics.iter().find(|x| x.name == t).map(|x| x.leaders.len()).unwrap_or(1) as i64;
            let kind = rng.below(10);
            let (p, key): (i64, Vec<u8>) = if kind < 2 {
                bump(d, "explicit");
                let over = if rng.chance(1, 10) { 1 } else { 0 };
                let p = rng.range(0, np - 1 + over);
                let k = if rng.chance(1, 2) { key_of_len(rng, 3) } else { vec![] };
                (p, k)
            } else if kind < 6 {
                bump(d, "keyed");
                // the same key turns up again - for the same topic, for another one with another partition count: its
                // partition is a function of the key and that count alone, whatever was sent before
                if !key_pool.is_empty() && rng.chance(1, 3) {
                    bump(d, "key-used-before");
                    (-1, rng.pick(&key_pool[..]).clone())
                } else {
                    let lens = [1usize, 2, 3, 4, 5, 15, 16, 17, 31, 32, 33, 63, 64, 65, 100, 1000];
                    let l = *rng.pick(&lens);
                    let k = key_of_len(rng, l);
                    key_pool.push(k.clone());
                    (-1, k)
                }
            } else {
                bump(d, "keyless");
                (-1, vec![])
            };
            // "no partition given" is any negative number, not only the -1 the convenience constructors write
            let p = if p == -1 && uniq % 4 == 3 {
                bump(d, "unspecified-partition-other-than-minus-one");
                [-2i64, i32::MIN as i64, -100][(uniq / 4 % 3) as usize]
            } else {
                p
            };
            let mut v = uniq.to_be_bytes().to_vec();
            let extra = rng.below(6) as usize;
            v.extend(rng.bytes(extra));
            line.push_str(&format!(" {} {} {} {}", h(&t), p, hex(&key), hex(&v)));
        }
        out.push(line);
    }
    out
}

pub fn payload(rng: &mut Rng, d: &mut Dist) -> Option<Vec<u8>> {
    match rng.below(12) {
        0 => {
            bump(d, "payload-null");
            None
        }
        1 => {
            bump(d, "payload-empty");
            Some(vec![])
        }
        2 => {
            bump(d, "payload-multi-KiB");
            let n = 1024 + rng.below(6000) as usize;
            Some(rng.bytes(n))
        }
        3 => {
            bump(d, "payload-repetitive");
            let n = 1 + rng.below(3000) as usize;
            let b = rng.next() as u8;
            Some(vec![b; n])
        }
        _ => {
            bump(d, "payload-small");
            let n = 1 + rng.below(40) as usize;
            Some(rng.bytes(n))
        }
    }
}

pub fn opt_tok(b: &Option<Vec<u8>>) -> String {
    match b {
        None => "~".into(),
        Some(b) => hex(b),
    }
}

/// C03: `produce_messages` with explicit partitions, every payload shape, every codec, 1-3 topics x partitions.
pub fn gen_c03(rng: &mut Rng, d: &mut Dist, _idx: u64) -> Vec<String> {
    let cl = Cluster::random(rng, 4, false);
    let mut out = cl.setup_lines();
    out.push(format!("OP client_new {}", cl.bootstrap()));
    out.push("OP c load_metadata_all".into());
    let ncalls = 1 + rng.below(3);
    for call_no in 0..ncalls {
        // a call that fails before or while its request is written (a client id that cannot be encoded, a connection that
        // breaks) leaves nothing behind: the produce after it is as valid as any
        if call_no > 0 && rng.chance(1, 4) {
            let t = rng.pick(&cl.topics);
            if rng.chance(1, 2) {
                bump(d, "after-an-unencodable-request");
                out.push(format!("OP c set client_id {}", h(&name_of_len(rng, 40000))));
                out.push(format!("OP c produce 1 1 0 {} 0 ~ 6661696c", h(&t.name)));
                out.push(format!("OP c set client_id {}", h("ok")));
            } else {
                bump(d, "after-a-broken-connection");
                out.push("H write_chunks 9".into());
                out.push("H fail_send 1".into());
                out.push(format!("OP c produce 1 1 0 {} 0 ~ 6661696c", h(&t.name)));
                out.push("H clear_faults".into());
            }
        }
        let c = rng.below(3);
        bump(d, &format!("codec-{}", c));
        out.push(format!("OP c set compression {}", c));
        let acks = *rng.pick(&[1i64, 1, -1, 0]);
        // mostly small batches; now and then a long one interleaving a few partitions (order inside a partition must
        // survive whatever grouping the client does)
        let long = rng.chance(1, 6);
        if long {
            bump(d, "batch-long-interleaved");
        }
        let nrec = if long { 21 + rng.below(80) } else { 1 + rng.below(10) };
        let mut line = format!("OP c produce {} 1 0", acks);
        // now and then a partition's set grows past the compressors' internal buffers with data that does not compress
        let big = rng.chance(1, 8);
        for i in 0..nrec {
            let t = rng.pick(&cl.topics);
            let p = rng.below(t.leaders.len() as u64);
            let k = payload(rng, d);
            let v = if big && i == 0 {
                bump(d, "payload-64KiB-plus-noise");
                let n = 66_000 + rng.below(60_000) as usize;
                Some(rng.bytes(n))
            } else {
                payload(rng, d)
            };
            line.push_str(&format!(" {} {} {} {}", h(&t.name), p, opt_tok(&k), opt_tok(&v)));
        }
        out.push(line);
    }
    if rng.chance(1, 3) {
        let mut uniq = 1000u32;
        let fc = rng.chance(1, 2);
        producer_block(rng, d, &cl, &mut out, &mut uniq, fc);
    }
    out
}

fn name_of_len(rng: &mut Rng, n: usize) -> String {
    let alphabet = b"abcdefghijklmnopqrstuvwxyz0123456789";
    let mut v = Vec::with_capacity(n);
    for _ in 0..n {
        v.push(*rng.pick(alphabet));
    }
    String::from_utf8(v).unwrap()
}

fn extreme_i64(rng: &mut Rng) -> i64 {
    *rng.pick(&[0i64, 1, -1, 2, 7, 1000, i64::MAX, i64::MIN, i32::MAX as i64, i32::MIN as i64, 1 << 40, -(1 << 40)])
}

fn extreme_i32(rng: &mut Rng) -> i64 {
    *rng.pick(&[0i64, 1, -1, 2, 4096, 32768, i32::MAX as i64, i32::MIN as i64, 1 << 20])
}

/// C09: every public client operation with generated arguments: names of length 0/1/32767/32768/40000 (rare),
/// i32/i64 extremes, empty lists, many topics x partitions, every client setting.
pub fn gen_c09(rng: &mut Rng, d: &mut Dist, _idx: u64) -> Vec<String> {
    let maxp = *rng.pick(&[1u64, 2, 4, 4, 40]);
    let cl = Cluster::random(rng, maxp, true);
    let mut out = cl.setup_lines();
    // a few more topics sometimes
    let extra = if rng.chance(1, 4) { 1 + rng.below(30) } else { 0 };
    let mut names: Vec<(String, usize)> = cl.topics.iter().map(|t| (t.name.clone(), t.leaders.len())).collect();
    for i in 0..extra {
        let n = format!("x{}", i);
        let np = 1 + rng.below(3) as usize;
        out.push(format!("TOPIC {} {}", h(&n), np));
        for p in 0..np {
            out.push(format!("LEADER {} {} {}", h(&n), p, 1 + rng.below(cl.brokers.len() as u64)));
        }
        names.push((n, np));
    }
    out.push(format!("OP client_new {}", cl.bootstrap()));
    // settings
    if rng.chance(2, 3) {
        // 65536 + k and 131072 + k wrap to the small length k when narrowed to 16 bits
        let l = *rng.pick(&[0usize, 1, 5, 5, 5, 5, 5, 32767, 32768, 65535, 65536, 65541, 70000, 131081]);
        bump(d, &format!("client-id-len-{}", l));
        out.push(format!("OP c set client_id {}", h(&name_of_len(rng, l))));
    }
    if rng.chance(1, 2) {
        out.push(format!("OP c set fetch_max_wait {} {}", rng.below(5), rng.below(1_000_000_000)));
    }
    if rng.chance(1, 2) {
        out.push(format!("OP c set fetch_min_bytes {}", extreme_i32(rng)));
    }
    if rng.chance(1, 2) {
        out.push(format!("OP c set fetch_max_bytes {}", *rng.pick(&[1i64, 100, 32768, i32::MAX as i64, 0, -5])));
    }
    let storage = *rng.pick(&["zk", "kafka", "kafka", "none"]);
    out.push(format!("OP c set storage {}", storage));
    out.push("OP c set retry_backoff_ms 0".into());
    out.push("OP c set retry_max 2".into());
    out.push("OP c load_metadata_all".into());
    let nops = 2 + rng.below(8);
    for _ in 0..nops {
        let mut pick_topic = |rng: &mut Rng, d: &mut Dist| -> String {
            match rng.below(40) {
                0 => {
                    bump(d, "name-unknown");
                    "unknown".to_string()
                }
                1 => {
                    bump(d, "name-empty");
                    String::new()
                }
                2 => {
                    bump(d, "name-32768");
                    name_of_len(rng, 32768)
                }
                3 => {
                    bump(d, "name-32767");
                    name_of_len(rng, 32767)
                }
                4 => {
                    bump(d, "name-40000");
                    name_of_len(rng, 40000)
                }
                5 => {
                    // lengths that wrap to a small non-negative number when narrowed to 16 bits
                    let l = *rng.pick(&[65536usize, 65541, 70000, 131081, 98303, 98304]);
                    bump(d, "name-beyond-65535");
                    name_of_len(rng, l)
                }
                _ => rng.pick(&names).0.clone(),
            }
        };
        match rng.below(9) {
            0 => {
                bump(d, "op-load_metadata");
                let n = rng.below(4);
                let ts: Vec<String> = (0..n).map(|_| h(&pick_topic(rng, d))).collect();
                out.push(format!("OP c load_metadata {}", ts.join(" ")));
                out.push("OP c load_metadata_all".into());
            }
            1 => {
                bump(d, "op-fetch_offsets");
                let n = rng.below(4);
                let ts: Vec<String> = (0..n).map(|_| h(&pick_topic(rng, d))).collect();
                out.push(format!("OP c fetch_offsets {} {}", extreme_i64(rng), ts.join(" ")));
            }
            2 => {
                bump(d, "op-list_offsets");
                let n = rng.below(4);
                let ts: Vec<String> = (0..n).map(|_| h(&pick_topic(rng, d))).collect();
                out.push(format!("OP c list_offsets {} {}", extreme_i64(rng), ts.join(" ")));
            }
            3 | 4 => {
                bump(d, "op-fetch_messages");
                let n = rng.below(if maxp > 4 { 60 } else { 6 });
                let mut line = String::from("OP c fetch_messages");
                for _ in 0..n {
                    let t = pick_topic(rng, d);
                    let np = names.iter().find(|x| x.0 == t).map(|x| x.1).unwrap_or(1) as i64;
                    let p = if rng.chance(1, 10) { *rng.pick(&[-1i64, np, np + 5, i32::MAX as i64, i32::MIN as i64]) } else { rng.range(0, np - 1) };
                    line.push_str(&format!(" {} {} {} {}", h(&t), p, extreme_i64(rng), extreme_i32(rng)));
                }
                out.push(line);
            }
            5 => {
                bump(d, "op-produce");
                let n = 1 + rng.below(5);
                let acks = *rng.pick(&[0i64, 1, -1]);
                let mut line = format!("OP c produce {} {} {}", acks, rng.below(2_000_000), rng.below(1_000_000_000));
                for _ in 0..n {
                    let t = pick_topic(rng, d);
                    let np = names.iter().find(|x| x.0 == t).map(|x| x.1).unwrap_or(1) as i64;
                    let k = payload(rng, d);
                    let v = payload(rng, d);
                    line.push_str(&format!(" {} {} {} {}", h(&t), rng.range(0, np - 1), opt_tok(&k), opt_tok(&v)));
                }
                out.push(line);
            }
            6 => {
                bump(d, "op-commit_offsets");
                let n = rng.below(5);
                let g = if rng.chance(1, 20) { let l = *rng.pick(&[32768usize, 65543, 70000]); name_of_len(rng, l) } else { "grp".to_string() };
                let mut line = format!("OP c commit_offsets {}", h(&g));
                for _ in 0..n {
                    let t = pick_topic(rng, d);
                    let np = names.iter().find(|x| x.0 == t).map(|x| x.1).unwrap_or(1) as i64;
                    line.push_str(&format!(" {} {} {}", h(&t), rng.range(0, np - 1), extreme_i64(rng)));
                }
                out.push(line);
            }
            7 => {
                bump(d, "op-fetch_group_offsets");
                let n = rng.below(5);
                let mut line = format!("OP c fetch_group_offsets {}", h("grp"));
                for _ in 0..n {
                    let t = pick_topic(rng, d);
                    let np = names.iter().find(|x| x.0 == t).map(|x| x.1).unwrap_or(1) as i64;
                    line.push_str(&format!(" {} {}", h(&t), rng.range(0, np - 1)));
                }
                out.push(line);
            }
            _ => {
                bump(d, "op-fetch_group_topic_offset");
                out.push(format!("OP c fetch_group_topic_offset {} {}", h("grp"), h(&pick_topic(rng, d))));
            }
        }
    }
    // a broker joins, takes over some partitions, and the client learns about it by loading one topic again (no reset): the
    // requests that follow state what was asked, to the broker that leads it now
    if rng.chance(1, 3) && cl.topics.iter().all(|t| t.name.len() < 100) {
        bump(d, "broker-joins-then-topic-reloaded");
        let id = 40 + rng.below(5) as i32;
        out.push(format!("BROKER {} {} 9092", id, h(&format!("j{}", id))));
        out.push(format!("ORDER {}", rng.pick(&["rev", "rot 1", "req"])));
        let ti = rng.below(cl.topics.len() as u64) as usize;
        let tn = cl.topics[ti].name.clone();
        let np = cl.topics[ti].leaders.len();
        for p in 0..np {
            if rng.chance(1, 2) {
                out.push(format!("LEADER {} {} {}", h(&tn), p, id));
            }
        }
        out.push(format!("OP c load_metadata {}", h(&tn)));
        let mut fm = String::from("OP c fetch_messages");
        let mut pr = String::from("OP c produce 1 1 0");
        for p in 0..np.min(6) {
            fm.push_str(&format!(" {} {} 0 -1", h(&tn), p));
            pr.push_str(&format!(" {} {} ~ {:02x}", h(&tn), p, p));
        }
        out.push(fm);
        out.push(format!("OP c fetch_offsets -1 {}", h(&tn)));
        out.push(format!("OP c list_offsets -2 {}", h(&tn)));
        out.push(pr);
    }
    // the producer's requests are requests of this client library too: headers and bodies must state what its builder was given
    if rng.chance(1, 3) {
        let mut uniq = 5000u32;
        let fc = rng.chance(1, 2);
        producer_block(rng, d, &cl, &mut out, &mut uniq, fc);
    }
    out
}

impl Cluster {
    /// like `random` but with unusual node ids, ports and UTF-8 host names
    pub fn random_wild(rng: &mut Rng, maxp: u64, leaderless: bool) -> Cluster {
        let mut c = Cluster::random(rng, maxp, leaderless);
        let ids = [0i32, 1, 2, 3, 7, 1000, i32::MAX, -5, 65536];
        let hosts = ["b1", "b2", "b3", "kafka-0.internal", "h\u{e4}st", "10.0.0.1", "x"];
        let ports = [9092i32, 1, 65535, 0, i32::MAX, 19092];
        let mut used: Vec<i32> = Vec::new();
        let mut used_hosts: Vec<String> = Vec::new();
        let n = c.brokers.len();
        let old: Vec<i32> = c.brokers.iter().map(|b| b.0).collect();
        let mut new_brokers = Vec::new();
        for _ in 0..n {
            let mut id = *rng.pick(&ids);
            while used.contains(&id) {
                id = *rng.pick(&ids);
            }
            used.push(id);
            let mut hp = format!("{}:{}", rng.pick(&hosts), rng.pick(&ports));
            while used_hosts.contains(&hp) {
                hp = format!("{}:{}", rng.pick(&hosts), rng.pick(&ports));
            }
            used_hosts.push(hp.clone());
            let (hst, port) = hp.rsplit_once(':').unwrap();
            new_brokers.push((id, hst.to_string(), port.parse::<i32>().unwrap()));
        }
        for t in &mut c.topics {
            for l in &mut t.leaders {
                if *l >= 0 {
                    let idx = old.iter().position(|x| x == l).unwrap();
                    *l = new_brokers[idx].0;
                }
            }
        }
        c.brokers = new_brokers;
        c
    }

    /// leaderless is encoded as −1 in `leaders`; node ids may be negative in wild clusters, so use this to test
    pub fn has_leader(&self, t: &str, p: usize) -> bool {
        self.topics.iter().find(|x| x.name == t).map(|x| x.leaders[p] != -1).unwrap_or(false)
    }

    pub fn setup_lines_wild(&self) -> Vec<String> {
        let mut out = Vec::new();
        for (id, host, port) in &self.brokers {
            out.push(format!("BROKER {} {} {}", id, h(host), port));
        }
        for t in &self.topics {
            out.push(format!("TOPIC {} {}", h(&t.name), t.leaders.len()));
            for (p, l) in t.leaders.iter().enumerate() {
                if *l != -1 {
                    out.push(format!("LEADER {} {} {}", h(&t.name), p, l));
                }
            }
        }
        out.push(format!("COORD {}", self.brokers[0].0));
        out
    }
}

/// C10: arbitrary well-formed content through every response type: unusual node ids / ports / UTF-8 names,
/// extreme offsets and high-watermarks, committed offsets incl. none, several brokers, response orders.
/// consumer polls over several brokers while one broker answers its fetches with a well-formed reply of an unusual shape
/// (no topics at all / topics without partitions): everything the other brokers sent must still be handed out
pub fn gen_unusual_fetch_shapes(rng: &mut Rng, d: &mut Dist) -> Vec<String> {
    bump(d, "fetch-replies-of-unusual-shape");
    let mut cl = Cluster::random(rng, 3, false);
    while cl.brokers.len() < 2 {
        let id = cl.brokers.len() as i32 + 1;
        cl.brokers.push((id, format!("b{}", id), 9092));
    }
    // every broker leads something
    let nb = cl.brokers.len();
    let mut k = 0usize;
    for t in cl.topics.iter_mut() {
        if t.leaders.len() < 2 {
            t.leaders.push(1);
        }
        for l in t.leaders.iter_mut() {
            *l = cl.brokers[k % nb].0;
            k += 1;
        }
    }
    let mut out = cl.setup_lines();
    for t in &cl.topics {
        for p in 0..t.leaders.len() {
            append_batches(rng, d, &mut out, &t.name, p, 0, 2);
        }
    }
    let odd = rng.pick(&cl.brokers).0;
    out.push(format!("FETCHSHAPE {} {}", odd, 1 + rng.below(2)));
    if rng.chance(1, 3) {
        out.push(format!("ORDER {}", rng.pick(&["rev", "rot 1"])));
    }
    let mut opts: Vec<String> = cl.topics.iter().map(|t| format!("topic={}", h(&t.name))).collect();
    opts.push("fallback=earliest".into());
    out.push(format!("OP consumer_create hosts={} {}", cl.bootstrap(), opts.join(" ")));
    // broker contact order is the hash map's: several polls, so that the odd reply comes first in some
    for _ in 0..(3 + rng.below(3)) {
        out.push("OP poll".into());
    }
    out.push(format!("FETCHSHAPE {} 0", odd));
    for _ in 0..12 {
        out.push("OP poll".into());
    }
    out
}

pub fn gen_c10(rng: &mut Rng, d: &mut Dist, idx: u64) -> Vec<String> {
    if idx % 6 == 2 {
        return gen_unusual_fetch_shapes(rng, d);
    }
    // arrays around the decoders' internal limits (the pre-allocation cap is 4096 elements): every element must arrive
    if idx % 149 == 5 && idx < 1200 {
        let n = [4097usize, 4096, 5000, 4095][((idx / 149) % 4) as usize];
        bump(d, &format!("array-of-{}", n));
        let mut out = vec![format!("BROKER 1 {} 9092", h("b1")), format!("TOPIC {} {}", h("big"), n)];
        for p in 0..n {
            out.push(format!("LEADER {} {} 1", h("big"), p));
        }
        out.push("COORD 1".into());
        out.push(format!("HW {} {} 77", h("big"), n - 1));
        out.push(format!("COMMITTED {} {} {} 5", h("grp"), h("big"), n - 1));
        if rng.chance(1, 2) {
            out.push("ORDER rev".into());
        }
        out.push(format!("OP client_new {}", h("b1:9092")));
        out.push("OP c set storage kafka".into());
        out.push("OP c load_metadata_all".into());
        out.push("OP c topics".into());
        out.push(format!("OP c fetch_offsets -1 {}", h("big")));
        out.push(format!("OP c list_offsets -2 {}", h("big")));
        out.push(format!("OP c fetch_group_topic_offset {} {}", h("grp"), h("big")));
        return out;
    }
    // fetch responses (high watermarks and messages; plain, compressed and nested sets, several topics x partitions
    // x brokers): the message sets are part of "the content the broker sent"
    if idx % 3 == 1 {
        bump(d, "fetch-responses");
        return gen_c02(rng, d, idx);
    }
    // metadata responses in sequence: what the client reports after a partial reload is what the brokers sent, for every
    // topic - also after brokers left, joined or moved between two responses
    if idx % 6 == 5 {
        bump(d, "metadata-response-sequences");
        return gen_c06(rng, d, idx);
    }
    let maxp = *rng.pick(&[1u64, 3, 5]);
    let mut cl = Cluster::random_wild(rng, maxp, true);
    // −1 as a node id would read as "no leader": avoid it (documented protocol meaning)
    for b in &mut cl.brokers {
        if b.0 == -1 {
            b.0 = -2;
        }
    }
    let mut out = cl.setup_lines_wild();
    let ext = [0i64, 1, 5, 1000, i64::MAX, i64::MAX - 1, 1 << 33];
    for t in &cl.topics {
        for p in 0..t.leaders.len() {
            let e = *rng.pick(&ext);
            let hw = if rng.chance(1, 3) { e } else { e.saturating_add(rng.below(1000) as i64) };
            out.push(format!("EARLIEST {} {} {}", h(&t.name), p, e));
            out.push(format!("HW {} {} {}", h(&t.name), p, hw));
            if rng.chance(1, 2) {
                out.push(format!("COMMITTED {} {} {} {}", h("grp"), h(&t.name), p, rng.pick(&ext)));
                bump(d, "committed");
            }
        }
    }
    match rng.below(3) {
        0 => {}
        1 => {
            out.push("ORDER rev".into());
            bump(d, "order-rev");
        }
        _ => {
            out.push(format!("ORDER rot {}", 1 + rng.below(3)));
            bump(d, "order-rot");
        }
    }
    bump(d, &format!("brokers-{}", cl.brokers.len()));
    out.push(format!("OP client_new {}", cl.bootstrap()));
    out.push(format!("OP c set storage {}", rng.pick(&["zk", "kafka"])));
    out.push("OP c set retry_backoff_ms 0".into());
    out.push("OP c set retry_max 4".into());
    out.push("OP c load_metadata_all".into());
    out.push("OP c topics".into());
    let names: Vec<String> = cl.topics.iter().map(|t| t.name.clone()).collect();
    let nops = 2 + rng.below(6);
    for _ in 0..nops {
        let k = 1 + rng.below(3) as usize;
        let mut ts: Vec<String> = (0..k).map(|_| h(rng.pick(&names[..]).as_str())).collect();
        if rng.chance(1, 5) {
            ts.push(h("unknown"));
        }
        match rng.below(6) {
            0 => {
                bump(d, "op-fetch_offsets");
                out.push(format!("OP c fetch_offsets {} {}", rng.pick(&[-1i64, -2, 0, 5, 123456789]), ts.join(" ")));
            }
            1 => {
                bump(d, "op-list_offsets");
                out.push(format!("OP c list_offsets {} {}", rng.pick(&[-1i64, -2, 0, 77, i64::MAX]), ts.join(" ")));
            }
            2 => {
                bump(d, "op-fetch_group_offsets");
                // now and then the coordinator answers one partition (any position in its reply) with a retriable code once
                // or twice before the clean reply: the call returns the clean reply's content, nothing of the others
                if rng.chance(1, 3) {
                    bump(d, "group-fetch-retried");
                    let t = rng.pick(&cl.topics);
                    out.push(format!("FAULT 9 {} {} {} {}", h(&t.name), rng.below(t.leaders.len() as u64), rng.pick(&[14i64, 16]), 1 + rng.below(2)));
                }
                let mut line = format!("OP c fetch_group_offsets {}", h("grp"));
                for _ in 0..(1 + rng.below(5)) {
                    let t = rng.pick(&cl.topics);
                    line.push_str(&format!(" {} {}", h(&t.name), rng.below(t.leaders.len() as u64)));
                }
                out.push(line);
            }
            3 => {
                bump(d, "op-fetch_group_topic_offset");
                out.push(format!("OP c fetch_group_topic_offset {} {}", h("grp"), h(rng.pick(&names[..]).as_str())));
            }
            4 => {
                bump(d, "op-produce");
                let mut line = String::from("OP c produce 1 1 0");
                for i in 0..(1 + rng.below(4)) {
                    let t = rng.pick(&cl.topics);
                    line.push_str(&format!(" {} {} ~ {:02x}", h(&t.name), rng.below(t.leaders.len() as u64), i));
                }
                out.push(line);
            }
            _ => {
                bump(d, "op-topics");
                out.push("OP c load_metadata_all".into());
                out.push("OP c topics".into());
            }
        }
    }
    out
}

pub fn error_code(rng: &mut Rng, d: &mut Dist) -> i64 {
    let c = match rng.below(10) {
        0..=5 => rng.range(-1, 35),
        6 | 7 => *rng.pick(&[-32768i64, -2, 36, 127, 128, 255, 256, 32767]),
        _ => rng.range(-32768, 32767),
    };
    bump(d, if (1..=35).contains(&c) { "code-documented" } else if c == 0 { "code-0" } else { "code-unmapped" });
    c
}

/// C11: every response kind with an error code injected on one partition at a random position among healthy ones.
pub fn gen_c11(rng: &mut Rng, d: &mut Dist, idx: u64) -> Vec<String> {
    // error codes in the answers to a consumer's own single-partition fetches (a partition waiting behind a large entry):
    // the histories of C17, half of them disturbed by injected partition errors
    if idx % 8 == 7 {
        bump(d, "consumer-retry-fetch-histories");
        return gen_c17(rng, d, idx);
    }
    let cl = Cluster::random(rng, 4, false);
    let mut out = cl.setup_lines();
    for t in &cl.topics {
        for p in 0..t.leaders.len() {
            out.push(format!("APPEND {} {} plain 0 ~ aa 1 ~ bb", h(&t.name), p));
        }
    }
    out.push("DATAWITHERROR 1".into());
    match rng.below(3) {
        0 => {}
        1 => out.push("ORDER rev".into()),
        _ => out.push(format!("ORDER rot {}", 1 + rng.below(3))),
    }
    let storage = *rng.pick(&["zk", "kafka"]);
    let kind = rng.below(8);
    let victim_t = rng.pick(&cl.topics);
    let victim_p = rng.below(victim_t.leaders.len() as u64);
    let code = error_code(rng, d);
    let all_topics: Vec<String> = cl.topics.iter().map(|t| h(&t.name)).collect();
    let fault = |api: i64| format!("FAULT {} {} {} {} 1", api, h(&victim_t.name), victim_p, code);
    if kind < 6 {
        out.push(format!("OP client_new {}", cl.bootstrap()));
        out.push(format!("OP c set storage {}", storage));
        out.push("OP c set retry_backoff_ms 0".into());
        out.push("OP c set retry_max 1".into());
        out.push("OP c load_metadata_all".into());
    }
    match kind {
        0 => {
            bump(d, "api-produce");
            out.push(fault(0));
            let mut line = String::from("OP c produce 1 1 0");
            let mut i = 0;
            for t in &cl.topics {
                for p in 0..t.leaders.len() {
                    i += 1;
                    line.push_str(&format!(" {} {} ~ {:02x}", h(&t.name), p, i));
                }
            }
            out.push(line);
        }
        1 => {
            bump(d, "api-fetch");
            out.push(fault(1));
            let mut line = String::from("OP c fetch_messages");
            for t in &cl.topics {
                for p in 0..t.leaders.len() {
                    line.push_str(&format!(" {} {} 0 -1", h(&t.name), p));
                }
            }
            out.push(line);
        }
        2 => {
            bump(d, "api-offsets");
            out.push(fault(2));
            out.push(format!("OP c fetch_offsets {} {}", rng.pick(&[-1i64, -2]), all_topics.join(" ")));
        }
        3 => {
            bump(d, "api-list-offsets");
            out.push(fault(2));
            out.push(format!("OP c list_offsets {} {}", rng.pick(&[-1i64, -2]), all_topics.join(" ")));
        }
        4 => {
            bump(d, "api-commit");
            if rng.chance(1, 4) {
                out.push(format!("SCRIPT 10 {}", code));
                bump(d, "api-coordinator");
            } else {
                out.push(fault(8));
            }
            let mut line = format!("OP c commit_offsets {}", h("grp"));
            for t in &cl.topics {
                for p in 0..t.leaders.len() {
                    line.push_str(&format!(" {} {} {}", h(&t.name), p, 1));
                }
            }
            out.push(line);
        }
        5 => {
            bump(d, "api-group-fetch");
            if rng.chance(1, 4) {
                out.push(format!("SCRIPT 10 {}", code));
                bump(d, "api-coordinator");
            } else {
                out.push(fault(9));
            }
            let mut line = format!("OP c fetch_group_offsets {}", h("grp"));
            for t in &cl.topics {
                for p in 0..t.leaders.len() {
                    line.push_str(&format!(" {} {}", h(&t.name), p));
                }
            }
            out.push(line);
        }
        6 => {
            bump(d, "api-poll");
            let ts: Vec<String> = cl.topics.iter().map(|t| format!("topic={}", h(&t.name))).collect();
            out.push(format!("OP consumer_create hosts={} fallback=earliest {}", cl.bootstrap(), ts.join(" ")));
            out.push(fault(1));
            out.push("OP poll".into());
            out.push("OP poll".into());
        }
        _ => {
            bump(d, "api-send");
            let acks = *rng.pick(&[1i64, -1]);
            bump(d, &format!("send-acks-{}", acks));
            let mut opts = vec![format!("acks={}", acks)];
            if rng.chance(1, 2) {
                opts.push(format!("partitioner={}", rng.below(3)));
            }
            rng.shuffle(&mut opts);
            out.push(format!("OP producer_create hosts={} {}", cl.bootstrap(), opts.join(" ")));
            out.push(fault(0));
            if rng.chance(1, 2) {
                out.push(format!("OP send {} {} - aa", h(&victim_t.name), victim_p));
            } else {
                out.push(format!("OP send_all {} {} - aa", h(&victim_t.name), victim_p));
            }
        }
    }
    out
}

/// C14: answer scripts over {ok, loading(14), not-coordinator(16), coordinator-not-available(15), fatal} for the three
/// group operations x retry limits 0..5 x coordinator moving between brokers; zero back-off.
/// The first 3 * 6 * (5 + 25 + 125) indices enumerate all scripts of length <= 3 exhaustively; later ones are random (length <= 6).
pub fn gen_c14(rng: &mut Rng, d: &mut Dist, idx: u64) -> Vec<String> {
    let answers = [0i64, 14, 16, 15, 29];
    let exhaustive = 3 * 6 * (5 + 25 + 125);
    let (opk, n, script): (u64, u64, Vec<i64>) = if idx < exhaustive {
        let mut i = idx;
        let opk = i % 3;
        i /= 3;
        let n = i % 6;
        i /= 6;
        let (len, mut code) = if i < 5 { (1, i) } else if i < 30 { (2, i - 5) } else { (3, i - 30) };
        let mut sc = Vec::new();
        for _ in 0..len {
            sc.push(answers[(code % 5) as usize]);
            code /= 5;
        }
        bump(d, "exhaustive-len<=3");
        (opk, n, sc)
    } else {
        let len = 1 + rng.below(6);
        bump(d, &format!("random-len-{}", len));
        (rng.below(3), rng.below(6), (0..len).map(|_| *rng.pick(&answers)).collect())
    };
    let mut cl = Cluster::random(rng, 3, false);
    if cl.brokers.len() < 2 {
        cl.brokers.push((2, "b2".into(), 9092));
    }
    let mut out = cl.setup_lines();
    out.push(format!("OP client_new {}", cl.bootstrap()));
    out.push(format!("OP c set storage {}", rng.pick(&["zk", "kafka"])));
    out.push("OP c set retry_backoff_ms 0".into());
    out.push(format!("OP c set retry_max {}", n));
    out.push("OP c load_metadata_all".into());
    bump(d, &format!("limit-{}", n));
    let t = &cl.topics[0];
    // optionally warm the coordinator cache, then move the coordinator to another broker
    let moved = rng.chance(1, 3);
    if moved {
        out.push(format!("OP c fetch_group_offsets {} {} 0", h("grp"), h(&t.name)));
        out.push(format!("COORD {}", cl.brokers[1].0));
        bump(d, "coordinator-moved");
    }
    let codes: Vec<String> = script.iter().map(|c| c.to_string()).collect();
    // where the script applies: the operation's own answers, or the coordinator look-ups
    let target = if rng.chance(1, 4) { 10 } else if opk == 0 { 8 } else { 9 };
    // a 15 on a commit/fetch answer is not retryable there (fatal); keep it, the spec says so too
    out.push(format!("SCRIPT {} {}", target, codes.join(" ")));
    bump(d, &format!("script-on-api-{}", target));
    // a connection that dies under the call (closed by the other side after the request was read, or refusing the request):
    // that is a failed exchange, not a retryable answer - the call ends there, whatever the retry limit
    let wire = idx >= exhaustive && idx % 4 == 1;
    if wire {
        let f = *rng.pick(&["eof_read", "fail_send", "eof_read", "timeout_read"]);
        bump(d, &format!("connection-dies-under-the-call-{}", f));
        if !moved {
            // the connection to the coordinator is an established one
            out.push(format!("OP c fetch_group_offsets {} {} 0", h("grp"), h(&t.name)));
        }
        out.push(format!("H {} {}", f, rng.below(3)));
    }
    match opk {
        0 => out.push(format!("OP c commit_offsets {} {} 0 5", h("grp"), h(&t.name))),
        1 => out.push(format!("OP c fetch_group_offsets {} {} 0", h("grp"), h(&t.name))),
        _ => out.push(format!("OP c fetch_group_topic_offset {} {}", h("grp"), h(&t.name))),
    }
    if wire {
        out.push("H clear_faults".into());
    }
    // the client is handed to a consumer builder: the consumer's own group calls (the offset look-up of its creation, its
    // commits) are bound by the limit set on that client
    if idx >= exhaustive && idx % 4 == 3 {
        bump(d, "consumer-built-from-the-client");
        let k = 1 + rng.below(5);
        let codes: Vec<String> = (0..k).map(|_| rng.pick(&[14i64, 16]).to_string()).collect();
        out.push(format!("SCRIPT 9 {}", codes.join(" ")));
        out.push(format!("OP consumer_create client topic={} group={} fallback=earliest", h(&t.name), h("grp")));
        out.push("SCRIPT 9".into());
        out.push(format!("APPEND {} 0 plain 0 ~ aa 1 ~ bb", h(&t.name)));
        out.push("OP poll".into());
        out.push(format!("OP consume {} 0 0", h(&t.name)));
        let k = 1 + rng.below(5);
        let codes: Vec<String> = (0..k).map(|_| rng.pick(&[14i64, 16]).to_string()).collect();
        out.push(format!("SCRIPT 8 {}", codes.join(" ")));
        out.push("OP commit".into());
        out.push("SCRIPT 8".into());
        return out;
    }
    // a follow-up call: must still work and go to the right coordinator
    out.push(format!("SCRIPT {}", target));
    out.push(format!("OP c fetch_group_offsets {} {} 0", h("grp"), h(&t.name)));
    // a broker that never stops answering with a retryable code: the call must give up after the configured attempts
    if rng.chance(1, 6) {
        let (api, code) = *rng.pick(&[(8i64, 16i64), (8, 14), (9, 16), (9, 14), (10, 15)]);
        bump(d, &format!("endless-{}-on-api-{}", code, api));
        if api == 10 {
            out.push(format!("SCRIPT 10 {}", vec!["15"; 300].join(" ")));
        } else {
            out.push(format!("FAULT {} * * {} 100000", api, code));
        }
        match api {
            8 => out.push(format!("OP c commit_offsets {} {} 0 7", h("grp"), h(&t.name))),
            9 => out.push(format!("OP c fetch_group_offsets {} {} 0", h("grp"), h(&t.name))),
            _ => {
                out.push("OP c reset_metadata".into());
                out.push("OP c load_metadata_all".into());
                out.push(format!("OP c fetch_group_offsets {} {} 0", h("grp2"), h(&t.name)));
            }
        }
        return out;
    }
    // the metadata is dropped and loaded again while a coordinator is remembered - from a cluster that has lost brokers,
    // or whose coordinator was never in the metadata: what is remembered must not be trusted blindly
    if rng.chance(1, 3) {
        match rng.below(3) {
            0 => {
                bump(d, "reload-after-broker-loss");
                for b in cl.brokers.iter().skip(1) {
                    out.push(format!("DELBROKER {}", b.0));
                }
                for (ti, tt) in cl.topics.iter().enumerate() {
                    for p in 0..tt.leaders.len() {
                        let _ = ti;
                        out.push(format!("LEADER {} {} {}", h(&tt.name), p, cl.brokers[0].0));
                    }
                }
                out.push(format!("COORD {}", cl.brokers[0].0));
            }
            1 => {
                bump(d, "reload-plain");
            }
            _ => {
                bump(d, "reload-after-reset-only");
                out.push("OP c reset_metadata".into());
                out.push(format!("OP c fetch_group_offsets {} {} 0", h("grp"), h(&t.name)));
            }
        }
        out.push("OP c load_metadata_all".into());
        out.push(format!("OP c fetch_group_offsets {} {} 0", h("grp"), h(&t.name)));
        out.push(format!("OP c commit_offsets {} {} 0 6", h("grp"), h(&t.name)));
    }
    out
}

/// C20: arguments mixing loaded / unloaded-but-existing / non-existing topics and in-range / out-of-range / negative
/// partitions, for every public operation, after histories of full loads, subset loads and resets.
pub fn gen_c20(rng: &mut Rng, d: &mut Dist, idx: u64) -> Vec<String> {
    let mut cl = Cluster::random(rng, 3, true);
    // make sure there are several topics so that subsets are meaningful
    let extra = ["e1", "e2"];
    for e in extra {
        if cl.topics.len() < 4 && !cl.topics.iter().any(|t| t.name == e) {
            let np = 1 + rng.below(3) as usize;
            cl.topics.push(Topic { name: e.to_string(), leaders: (0..np).map(|_| cl.brokers[0].0).collect() });
        }
    }
    let mut out = cl.setup_lines();
    out.push(format!("OP client_new {}", cl.bootstrap()));
    let storage = *rng.pick(&["zk", "kafka", "kafka", "none"]);
    out.push(format!("OP c set storage {}", storage));
    out.push("OP c set retry_backoff_ms 0".into());
    out.push("OP c set retry_max 1".into());
    let pick_tp = |rng: &mut Rng, d: &mut Dist, cl: &Cluster| -> (String, i64) {
        let t = match rng.below(8) {
            0 => {
                bump(d, "topic-nonexistent");
                "ghost".to_string()
            }
            _ => rng.pick(&cl.topics).name.clone(),
        };
        let np = cl.topics.iter().find(|x| x.name == t).map(|x| x.leaders.len()).unwrap_or(2) as i64;
        let p = match rng.below(8) {
            0 => {
                bump(d, "partition-out-of-range");
                np + rng.below(4) as i64
            }
            1 => {
                bump(d, "partition-negative");
                *rng.pick(&[-1i64, -2, i32::MIN as i64])
            }
            _ => rng.range(0, np - 1),
        };
        (t, p)
    };
    // a third of the histories go through the consumer or the producer layer: built from hosts (everything is loaded) or from
    // a client that has loaded a subset (or nothing), assigned / sending to known and unknown topics and partitions
    let layer = rng.below(6);
    if layer < 2 {
        let from_client = rng.chance(1, 2);
        if from_client {
            match rng.below(3) {
                0 => out.push("OP c load_metadata_all".into()),
                1 => {
                    let ts: Vec<String> = (0..(1 + rng.below(2))).map(|_| h(&rng.pick(&cl.topics).name)).collect();
                    out.push(format!("OP c load_metadata {}", ts.join(" ")));
                }
                _ => {}
            }
        }
        let from = if from_client { "client".to_string() } else { format!("hosts={}", cl.bootstrap()) };
        if layer == 0 {
            bump(d, if from_client { "consumer-from-client" } else { "consumer-from-hosts" });
            let mut opts: Vec<String> = Vec::new();
            for _ in 0..(1 + rng.below(3)) {
                let (t, p) = pick_tp(rng, d, &cl);
                if rng.chance(1, 2) {
                    opts.push(format!("topic={}", h(&t)));
                } else {
                    let (_, p2) = pick_tp(rng, d, &cl);
                    opts.push(format!("tp={}:{}", h(&t), if rng.chance(1, 2) { format!("{}", p) } else { format!("{},{}", p, p2) }));
                }
            }
            if rng.chance(2, 3) {
                opts.push(format!("group={}", h("grp")));
                opts.push(format!("storage={}", rng.pick(&["zk", "kafka"])));
            }
            opts.push(format!("fallback={}", rng.pick(&["earliest", "latest"])));
            rng.shuffle(&mut opts);
            out.push(format!("OP consumer_create {} {}", from, opts.join(" ")));
            for _ in 0..(2 + rng.below(6)) {
                let (t, p) = pick_tp(rng, d, &cl);
                match rng.below(5) {
                    0 | 1 => out.push("OP poll".into()),
                    2 => out.push(format!("OP consume {} {} {}", h(&t), p, rng.below(3))),
                    3 => out.push(format!("OP seek {} {} {}", h(&t), p, rng.below(3))),
                    _ => out.push("OP commit".into()),
                }
            }
        } else {
            bump(d, if from_client { "producer-from-client" } else { "producer-from-hosts" });
            out.push(format!("OP producer_create {} acks={}", from, rng.pick(&[0i64, 1])));
            let mut i = 0u32;
            let nsends = 2 + rng.below(4);
            for sno in 0..nsends {
                // behind the producer's back its client forgets topics: everything (reset), or a topic that was deleted on
                // the cluster and is gone after the next full load - records for them fail locally, nothing is asked
                if idx % 3 == 0 && sno == 1 {
                    if idx % 2 == 0 {
                        bump(d, "producer-client-reset");
                        out.push("OP p reset_metadata".into());
                    } else {
                        bump(d, "producer-topic-deleted-and-reloaded");
                        out.push(format!("DELTOPIC {}", h(&cl.topics[0].name)));
                        out.push("OP p load_metadata_all".into());
                    }
                }
                let mut line = String::from("OP send_all");
                for _ in 0..(1 + rng.below(4)) {
                    i += 1;
                    let (t, p) = if idx % 3 == 0 && sno >= 1 && rng.chance(1, 2) { (cl.topics[0].name.clone(), 0) } else { pick_tp(rng, d, &cl) };
                    let p = if rng.chance(1, 3) { -1 } else { p };
                    let k = if rng.chance(1, 2) { "-".to_string() } else { hex(&rng.bytes(2)) };
                    line.push_str(&format!(" {} {} {} {:08x}", h(&t), p, k, i));
                }
                out.push(line);
            }
        }
        return out;
    }
    let nops = 4 + rng.below(10);
    for _ in 0..nops {
        // the cluster changes under the client: a topic loses or gains partitions between loads
        if rng.chance(1, 6) {
            let ti = rng.below(cl.topics.len() as u64) as usize;
            let old = cl.topics[ti].leaders.len();
            let n = if old > 1 && rng.chance(2, 3) { 1 + rng.below(old as u64 - 1) as usize } else { old + 1 + rng.below(2) as usize };
            bump(d, if n < old { "cluster-topic-shrinks" } else { "cluster-topic-grows" });
            let first = cl.brokers[0].0;
            cl.topics[ti].leaders.resize(n, first);
            out.push(format!("TOPIC {} {}", h(&cl.topics[ti].name), n));
            for p in old..n {
                out.push(format!("LEADER {} {} {}", h(&cl.topics[ti].name), p, first));
            }
            // and is then re-loaded on its own (no reset), or everything is
            if rng.chance(2, 3) {
                out.push(format!("OP c load_metadata {}", h(&cl.topics[ti].name)));
                // calls naming the highest partition the topic had before or has now (what vanished is unknown from now on)
                let tn = h(&cl.topics[ti].name);
                let p = old.max(n) - 1;
                for _ in 0..(1 + rng.below(2)) {
                    match rng.below(5) {
                        0 => out.push(format!("OP c fetch_messages {} {} 0 -1", tn, p)),
                        1 => out.push(format!("OP c produce 1 1 0 {} {} ~ aa", tn, p)),
                        2 => out.push(format!("OP c commit_offsets {} {} {} 3", h("grp"), tn, p)),
                        3 => out.push(format!("OP c fetch_group_offsets {} {} {}", h("grp"), tn, p)),
                        _ => out.push(format!("OP c fetch_offsets -1 {}", tn)),
                    }
                }
            }
        }
        match rng.below(13) {
            0 | 12 => {
                // a load of everything that fails part-way still is a reset: afterwards everything is unknown
                if rng.chance(1, 2) {
                    bump(d, "hist-load-all-fails");
                    match rng.below(3) {
                        0 => out.push("H fail_recv 0".into()),
                        1 => out.push("H fail_send 0".into()),
                        _ => {
                            for b in &cl.brokers {
                                out.push(format!("H unreachable {}", h(&format!("{}:{}", b.1, b.2))));
                            }
                        }
                    }
                    out.push("OP c load_metadata_all".into());
                    out.push("H clear_faults".into());
                    for b in &cl.brokers {
                        out.push(format!("H reachable {}", h(&format!("{}:{}", b.1, b.2))));
                    }
                } else {
                    bump(d, "hist-load-all");
                    out.push("OP c load_metadata_all".into());
                }
            }
            1 => {
                bump(d, "hist-load-subset");
                let k = 1 + rng.below(2);
                let ts: Vec<String> = (0..k).map(|_| if rng.chance(1, 6) { h("ghost") } else { h(&rng.pick(&cl.topics).name) }).collect();
                out.push(format!("OP c load_metadata {}", ts.join(" ")));
            }
            2 => {
                bump(d, "hist-reset");
                // what was named last before the reset is as unknown afterwards as everything else
                let (t, p) = pick_tp(rng, d, &cl);
                if rng.chance(1, 2) {
                    out.push(format!("OP c commit_offsets {} {} {} 3", h("grp"), h(&t), p));
                } else {
                    out.push(format!("OP c fetch_group_offsets {} {} {}", h("grp"), h(&t), p));
                }
                out.push("OP c reset_metadata".into());
                match rng.below(3) {
                    0 => out.push(format!("OP c commit_offsets {} {} {} 4", h("grp"), h(&t), p)),
                    1 => out.push(format!("OP c fetch_group_offsets {} {} {}", h("grp"), h(&t), p)),
                    _ => out.push(format!("OP c produce 1 1 0 {} {} ~ aa", h(&t), p)),
                }
            }
            3 => {
                bump(d, "op-fetch_messages");
                let mut line = String::from("OP c fetch_messages");
                for _ in 0..(1 + rng.below(5)) {
                    let (t, p) = pick_tp(rng, d, &cl);
                    line.push_str(&format!(" {} {} 0 -1", h(&t), p));
                }
                out.push(line);
            }
            4 => {
                bump(d, "op-fetch_offsets");
                let ts: Vec<String> = (0..(1 + rng.below(3))).map(|_| h(&pick_tp(rng, d, &cl).0)).collect();
                out.push(format!("OP c fetch_offsets -1 {}", ts.join(" ")));
            }
            5 => {
                bump(d, "op-list_offsets");
                let ts: Vec<String> = (0..(1 + rng.below(3))).map(|_| h(&pick_tp(rng, d, &cl).0)).collect();
                out.push(format!("OP c list_offsets -2 {}", ts.join(" ")));
            }
            6 => {
                bump(d, "op-fetch_topic_offsets");
                out.push(format!("OP c fetch_topic_offsets -1 {}", h(&pick_tp(rng, d, &cl).0)));
            }
            7 | 8 => {
                bump(d, "op-produce");
                let mut line = format!("OP c produce {} 1 0", rng.pick(&[0i64, 1]));
                for i in 0..(1 + rng.below(4)) {
                    let (t, p) = pick_tp(rng, d, &cl);
                    line.push_str(&format!(" {} {} ~ {:02x}", h(&t), p, i));
                }
                out.push(line);
            }
            9 => {
                bump(d, "op-commit_offsets");
                let mut line = format!("OP c commit_offsets {}", h("grp"));
                for _ in 0..(1 + rng.below(4)) {
                    let (t, p) = pick_tp(rng, d, &cl);
                    line.push_str(&format!(" {} {} 3", h(&t), p));
                }
                out.push(line);
            }
            10 => {
                bump(d, "op-fetch_group_offsets");
                let mut line = format!("OP c fetch_group_offsets {}", h("grp"));
                for _ in 0..(1 + rng.below(4)) {
                    let (t, p) = pick_tp(rng, d, &cl);
                    line.push_str(&format!(" {} {}", h(&t), p));
                }
                out.push(line);
            }
            _ => {
                bump(d, "op-fetch_group_topic_offset");
                out.push(format!("OP c fetch_group_topic_offset {} {}", h("grp"), h(&pick_tp(rng, d, &cl).0)));
            }
        }
    }
    out
}

pub fn crc32(data: &[u8]) -> u32 {
    let mut c: u32 = 0xFFFF_FFFF;
    for b in data {
        c ^= *b as u32;
        for _ in 0..8 {
            c = if c & 1 == 1 { (c >> 1) ^ 0xEDB8_8320 } else { c >> 1 };
        }
    }
    c ^ 0xFFFF_FFFF
}

/// one Kafka v0 message entry; `crc_delta` is added to the correct checksum (0 = valid)
pub fn raw_msg(offset: i64, attr: u8, key: Option<&[u8]>, value: Option<&[u8]>, crc_delta: u32) -> Vec<u8> {
    let mut body = vec![0u8, attr];
    for f in [key, value] {
        match f {
            None => body.extend((-1i32).to_be_bytes()),
            Some(b) => {
                body.extend((b.len() as i32).to_be_bytes());
                body.extend(b);
            }
        }
    }
    let mut out = Vec::new();
    out.extend(offset.to_be_bytes());
    out.extend(((body.len() + 4) as i32).to_be_bytes());
    out.extend(crc32(&body).wrapping_add(crc_delta).to_be_bytes());
    out.extend(body);
    out
}

fn shuffled<T: Clone>(rng: &mut Rng, xs: &[T]) -> Vec<T> {
    let mut v = xs.to_vec();
    rng.shuffle(&mut v);
    v
}

/// C16: every option x boundary values x permutations of builder calls x from hosts / from a pre-configured client.
pub fn gen_c16(rng: &mut Rng, d: &mut Dist, idx: u64) -> Vec<String> {
    let cl = Cluster::random(rng, 2, false);
    let mut out = cl.setup_lines();
    let t = &cl.topics[0];
    // a log with a valid message and one with a wrong checksum behind it
    out.push(format!("APPENDRAW {} 0 0 0 {}", h(&t.name), hex(&raw_msg(0, 0, None, Some(b"good"), 0))));
    let corrupt = rng.chance(1, 2);
    if corrupt {
        let bad = raw_msg(1, 0, None, Some(b"bad-crc"), 1);
        // plain, or inside a compressed entry whose own checksum is right
        match rng.below(3) {
            0 => {
                out.push(format!("APPENDRAW {} 0 1 1 {}", h(&t.name), hex(&bad)));
                bump(d, "log-with-bad-crc");
            }
            k => {
                out.push(format!("APPENDRAW {} 0 1 1 {}", h(&t.name), hex(&real_wrapper(rng, k as u8, 1, &bad))));
                bump(d, "log-with-bad-crc-inside-compressed-entry");
            }
        }
    }
    let from_client = rng.chance(1, 2);
    bump(d, if from_client { "from-client" } else { "from-hosts" });
    // a third of the cases: every setter on the client and every builder call at once, so that each explicit builder value
    // (its own default included) meets a client that was configured otherwise
    let saturated = rng.chance(1, 3);
    if saturated {
        bump(d, "every-option-set");
    }
    // boundaries of the wire field (i32 milliseconds), of u64 milliseconds (2^64 ms = 18446744073709551.616 s: values just
    // above it wrap to small numbers when truncated), of u64 seconds
    let durations = [
        "0:0",
        "0:100000000",
        "1:999999999",
        "2147483:647000000",
        "2147483:648000000",
        "4294967296:0",
        "18446744073709551:615000000",
        "18446744073709551:616000000",
        "18446744073709551:999000000",
        "18446744073709552:0",
        "18446744073709553:500000000",
        "36893488147419103:300000000",
        "9223372036854775808:0",
        "18446744073709551615:999999999",
    ];
    if from_client {
        out.push(format!("OP client_new {}", cl.bootstrap()));
        let mut sets: Vec<String> = vec![
            format!("client_id {}", h(*rng.pick(&["pre", "", "x-client"]))),
            format!("compression {}", rng.below(3)),
            {
                let dd = rng.pick(&durations).replace(':', " ");
                format!("fetch_max_wait {}", dd)
            },
            format!("fetch_min_bytes {}", rng.pick(&[1i64, 0, 4096, i32::MAX as i64])),
            format!("fetch_max_bytes {}", rng.pick(&[100i64, 32768, 1 << 20])),
            format!("crc {}", rng.below(2)),
            format!("storage {}", rng.pick(&["none", "zk", "kafka"])),
            format!("retry_max {}", rng.below(4)),
            format!("idle_ms {}", rng.pick(&[0u64, 60_000, 540000, 86_400_000])),
            "retry_backoff_ms 0".to_string(),
        ];
        rng.shuffle(&mut sets);
        let k = if saturated { sets.len() } else { rng.below(sets.len() as u64 + 1) as usize };
        for sline in sets.iter().take(k) {
            out.push(format!("OP c set {}", sline));
        }
        out.push("OP c get_config".into());
        out.push("OP c load_metadata_all".into());
        // the retry limit in behaviour: a coordinator that keeps answering with retriable codes, in any mix
        if rng.chance(1, 3) {
            bump(d, "retry-limit-in-behaviour");
            let api = *rng.pick(&[8i64, 9]);
            let codes: Vec<String> = (0..(1 + rng.below(7))).map(|_| rng.pick(&[14i64, 16, 16]).to_string()).collect();
            out.push(format!("SCRIPT {} {}", api, codes.join(" ")));
            if api == 8 {
                out.push(format!("OP c commit_offsets {} {} 0 1", h("grp"), h(&t.name)));
            } else {
                out.push(format!("OP c fetch_group_offsets {} {} 0", h("grp"), h(&t.name)));
            }
            out.push(format!("SCRIPT {}", api));
        }
    }
    let consumer = rng.chance(1, 2);
    if consumer {
        bump(d, "consumer-builder");
        let all: Vec<String> = vec![
            format!("group={}", h("grp")),
            format!("fallback={}", rng.pick(&["earliest", "latest"])),
            format!("maxwait={}", rng.pick(&durations)),
            format!("minbytes={}", rng.pick(&[1i64, 0, 4096, i32::MAX as i64])),
            format!("maxbytes={}", rng.pick(&[100i64, 32768, 1 << 20])),
            format!("retrylimit={}", rng.pick(&[0i64, 1 << 20])),
            format!("crc={}", rng.below(2)),
            format!("storage={}", rng.pick(&["none", "zk", "kafka"])),
            format!("idle={}", rng.pick(&[0u64, 60_000, 540000])),
            format!("clientid={}", h(*rng.pick(&["cid", "", "other"]))),
        ];
        let mut chosen = shuffled(rng, &all);
        let k = if saturated { all.len() } else { rng.below(6) as usize };
        chosen.truncate(k);
        if saturated && rng.chance(1, 2) {
            chosen.retain(|o| !o.starts_with("group="));
        }
        // sometimes set one option twice: the last call must win
        if !chosen.is_empty() && rng.chance(1, 4) {
            let dup = rng.pick(&chosen[..]).clone();
            let (key, _) = dup.split_once('=').unwrap();
            let alt = all.iter().find(|o| o.starts_with(&format!("{}=", key))).unwrap().clone();
            chosen.push(alt);
            bump(d, "option-set-twice");
        }
        chosen.push(format!("topic={}", h(&t.name)));
        // a group needs a storage to load offsets; keep creation able to succeed
        let has_group = chosen.iter().any(|o| o.starts_with("group="));
        if has_group && !chosen.iter().rev().find(|o| o.starts_with("storage=")).map(|o| o != "storage=none").unwrap_or(false) {
            chosen.push(format!("storage={}", rng.pick(&["zk", "kafka"])));
        }
        let chosen = shuffled(rng, &chosen);
        bump(d, &format!("builder-calls-{}", chosen.len()));
        let from = if from_client { "client".to_string() } else { format!("hosts={}", cl.bootstrap()) };
        out.push(format!("OP consumer_create {} {}", from, chosen.join(" ")));
        out.push("OP k get_config".into());
        out.push("OP poll".into());
        out.push("OP poll".into());
        // a setter on the consumer's own client after creation: the Fetch requests that follow carry the new values, on every
        // partition, whether or not data keeps coming
        if idx % 3 == 1 {
            bump(d, "setter-after-creation");
            let np = t.leaders.len();
            for round in 0..2 {
                for p in 0..np {
                    if t.leaders[p] >= 0 && (round == 0 || rng.chance(1, 2)) {
                        out.push(format!("APPEND {} {} plain {} ~ {:02x}", h(&t.name), p, 10 + round, round));
                    }
                }
                match rng.below(3) {
                    0 => out.push(format!("OP k set fetch_max_bytes {}", rng.pick(&[4096i64, 70_000, 1 << 20, 333]))),
                    1 => out.push(format!("OP k set fetch_min_bytes {}", rng.pick(&[0i64, 1, 77, 4096]))),
                    _ => out.push(format!("OP k set fetch_max_wait {} {}", rng.pick(&[0i64, 1, 60]), rng.pick(&[0i64, 5_000_000, 250_000_000]))),
                }
                out.push("OP poll".into());
                out.push("OP poll".into());
            }
        }
    } else {
        bump(d, "producer-builder");
        let all: Vec<String> = vec![
            format!("compression={}", rng.below(3)),
            format!("acktimeout={}", rng.pick(&durations)),
            format!("idle={}", rng.pick(&[0u64, 60_000, 540000])),
            format!("acks={}", rng.pick(&[0i64, 1, -1])),
            format!("clientid={}", h(*rng.pick(&["pid", "", "other"]))),
            format!("partitioner={}", rng.below(5)),
        ];
        let mut chosen = shuffled(rng, &all);
        let k = if saturated { all.len() } else { rng.below(7) as usize };
        chosen.truncate(k);
        bump(d, &format!("builder-calls-{}", chosen.len()));
        if chosen.iter().any(|o| o.starts_with("partitioner=")) {
            bump(d, "with-partitioner");
        }
        let from = if from_client { "client".to_string() } else { format!("hosts={}", cl.bootstrap()) };
        out.push(format!("OP producer_create {} {}", from, chosen.join(" ")));
        out.push("OP p get_config".into());
        out.push(format!("OP send_all {} 0 6b 76", h(&t.name)));
    }
    out
}

/// C07: boundary lattice per partition committed in {none, e-1, e, e+1, mid, l-1, l, l+1} x (e = l | e < l) x fallback x
/// group set/unset x storage, over multi-topic / multi-partition / multi-broker assignments.
pub fn gen_c07(rng: &mut Rng, d: &mut Dist, idx: u64) -> Vec<String> {
    // one history in eight: a partition of the topic has no leader at creation time and the consumer is assigned the others,
    // explicitly - each of them starts where its own commit / its own reported range says
    if idx % 8 == 5 {
        bump(d, "unassigned-partition-without-a-leader");
        let np = 3 + rng.below(2) as usize;
        let dead = rng.below(np as u64 - 1) as usize;
        let mut out = vec![format!("BROKER 1 {} 9092", h("b1")), format!("BROKER 2 {} 9092", h("b2")), format!("TOPIC {} {}", h("t"), np), "COORD 1".to_string()];
        let group = rng.chance(3, 4);
        let storage = *rng.pick(&["zk", "kafka"]);
        let mut assigned = Vec::new();
        for p in 0..np {
            if p == dead {
                continue;
            }
            out.push(format!("LEADER {} {} {}", h("t"), p, 1 + (p % 2)));
            let e = 5 * (p as i64 + 1);
            let l = e + 10 * (p as i64 + 1);
            out.push(format!("EARLIEST {} {} {}", h("t"), p, e));
            out.push(format!("HW {} {} {}", h("t"), p, l));
            if group && rng.chance(2, 3) {
                out.push(format!("COMMITTEDIN {} {} {} {} {}", storage, h("grp"), h("t"), p, e + 1 + rng.below(5) as i64));
            }
            assigned.push(p.to_string());
        }
        let fb = *rng.pick(&["earliest", "latest"]);
        let mut line = format!("OP consumer_create hosts={} tp={}:{} fallback={}", h("b1:9092"), h("t"), assigned.join(","), fb);
        if group {
            line.push_str(&format!(" group={} storage={}", h("grp"), storage));
        }
        out.push(line);
        out.push("OP poll".into());
        return out;
    }
    let cl = Cluster::random(rng, 3, false);
    let mut out = cl.setup_lines();
    let group = rng.chance(4, 5);
    let storage = *rng.pick(&["zk", "kafka"]);
    for t in &cl.topics {
        for p in 0..t.leaders.len() {
            let e = *rng.pick(&[0i64, 5, 100, 1 << 33]);
            let l = if rng.chance(1, 4) { e } else { e + 1 + rng.below(20) as i64 };
            out.push(format!("EARLIEST {} {} {}", h(&t.name), p, e));
            out.push(format!("HW {} {} {}", h(&t.name), p, l));
            let choice = rng.below(9);
            let c: Option<i64> = match choice {
                0 => None,
                1 => Some(e - 1),
                2 => Some(e),
                3 => Some(e + 1),
                4 => Some((e + l) / 2),
                5 => Some(l - 1),
                6 => Some(l),
                7 => Some(l + 1),
                _ => Some(0),
            };
            let names = ["none", "e-1", "e", "e+1", "mid", "l-1", "l", "l+1", "zero"];
            bump(d, &format!("committed-{}", names[choice as usize]));
            // the group's offsets live in the store the consumer is configured for; the other store holds nothing, or
            // something else
            let other = if storage == "zk" { "kafka" } else { "zk" };
            if let Some(c) = c {
                if c != -1 {
                    out.push(format!("COMMITTEDIN {} {} {} {} {}", storage, h("grp"), h(&t.name), p, c));
                }
            }
            if rng.chance(1, 2) {
                bump(d, "other-store-holds-a-different-offset");
                out.push(format!("COMMITTEDIN {} {} {} {} {}", other, h("grp"), h(&t.name), p, e + rng.below((l - e + 1) as u64) as i64));
            }
        }
    }
    let fb = match rng.below(5) {
        0 | 1 => "earliest".to_string(),
        2 | 3 => "latest".to_string(),
        _ => format!("time:{}", rng.below(50)),
    };
    bump(d, &format!("fallback-{}", fb.split(':').next().unwrap()));
    bump(d, if group { "group-set" } else { "group-unset" });
    let mut opts: Vec<String> = cl.topics.iter().map(|t| format!("topic={}", h(&t.name))).collect();
    opts.push(format!("fallback={}", fb));
    if group {
        opts.push(format!("group={}", h("grp")));
        opts.push(format!("storage={}", storage));
    }
    // a third of the consumers are built from a client that was configured beforehand: with the same storage (inherited or
    // named again) or with the other one (the builder's word counts)
    let mut from = format!("hosts={}", cl.bootstrap());
    // one history in eight: the client handed in has a request behind it that ran into the read time-out, its reply arriving
    // late; what the consumer then asks must be answered by its own replies
    let late = idx % 8 == 3;
    if rng.chance(1, 3) || late {
        bump(d, "from-client");
        out.push(format!("OP client_new {}", cl.bootstrap()));
        let other = if storage == "zk" { "kafka" } else { "zk" };
        match rng.below(3) {
            0 => {}
            1 => {
                out.push(format!("OP c set storage {}", storage));
                if group && rng.chance(1, 2) {
                    opts.retain(|o| !o.starts_with("storage="));
                    bump(d, "from-client-storage-inherited");
                }
            }
            _ => {
                bump(d, "from-client-with-the-other-storage");
                out.push(format!("OP c set storage {}", other));
            }
        }
        out.push("OP c load_metadata_all".into());
        from = "client".to_string();
        if late {
            bump(d, "from-client-after-a-timed-out-request");
            let ts: Vec<String> = cl.topics.iter().map(|t| h(&t.name)).collect();
            out.push(format!("H timeout_read {}", rng.below(2)));
            out.push(format!("OP c fetch_offsets {} {}", rng.pick(&[-1i64, -2]), ts.join(" ")));
            out.push("H clear_faults".into());
        }
        // the look-up of the group's offsets does not go through at once: retriable answers (within the retry limit) must end
        // at the committed offsets all the same, an answer that is final must fail the creation
        if group && rng.chance(1, 2) {
            out.push("OP c set retry_backoff_ms 0".into());
            out.push("OP c set retry_max 4".into());
            let k = 1 + rng.below(2);
            let mut codes: Vec<String> = (0..k).map(|_| rng.pick(&[14i64, 16]).to_string()).collect();
            if rng.chance(1, 3) {
                bump(d, "offset-look-up-fails-for-good");
                codes.push(rng.pick(&[30i64, 29, 15, 2]).to_string());
            } else {
                bump(d, "offset-look-up-retried");
            }
            out.push(format!("SCRIPT 9 {}", codes.join(" ")));
        }
    }
    rng.shuffle(&mut opts);
    out.push(format!("OP consumer_create {} {}", from, opts.join(" ")));
    out.push("OP poll".into());
    out
}

/// C19: assignment maps over topics whose names sort around each other; explicit lists with duplicates / unsorted /
/// out-of-range / negative ids; overriding calls; leaderless partitions; then operations on consumed and foreign partitions.
pub fn gen_c19(rng: &mut Rng, d: &mut Dist, idx: u64) -> Vec<String> {
    let mut cl = Cluster::random(rng, 4, true);
    // more topics so that the sorted table has something to search
    let pool = ["t", "ta", "tb", "T", "u", "t-1", "t\u{e4}", "a.b", "zz", "t\u{0}", "tab"];
    while cl.topics.len() < 2 + rng.below(4) as usize {
        let n = rng.pick(&pool).to_string();
        if !cl.topics.iter().any(|t| t.name == n) {
            let np = 1 + rng.below(4) as usize;
            let nb = cl.brokers.len() as u64;
            cl.topics.push(Topic { name: n, leaders: (0..np).map(|_| if rng.chance(1, 6) { -1 } else { 1 + rng.below(nb) as i32 }).collect() });
        }
    }
    let mut out = cl.setup_lines();
    for t in &cl.topics {
        for p in 0..t.leaders.len() {
            if t.leaders[p] >= 0 {
                out.push(format!("APPEND {} {} plain 0 ~ aa 1 ~ bb 2 ~ cc", h(&t.name), p));
            }
        }
    }
    let ncalls = rng.below(5);
    let mut opts: Vec<String> = Vec::new();
    for _ in 0..ncalls {
        let t = if rng.chance(1, 12) { "ghost".to_string() } else { rng.pick(&cl.topics).name.clone() };
        let np = cl.topics.iter().find(|x| x.name == t).map(|x| x.leaders.len()).unwrap_or(2) as i64;
        if rng.chance(1, 2) {
            bump(d, "assign-topic");
            opts.push(format!("topic={}", h(&t)));
        } else {
            let k = rng.below(5);
            let mut ps: Vec<i64> = (0..k).map(|_| rng.range(0, np - 1)).collect();
            if rng.chance(1, 8) {
                ps.push(*rng.pick(&[np, np + 3, -1, i32::MIN as i64]));
                bump(d, "assign-out-of-range");
            }
            bump(d, if ps.is_empty() { "assign-empty-list" } else { "assign-explicit" });
            let mut sorted = ps.clone();
            sorted.sort();
            sorted.dedup();
            if sorted.len() != ps.len() {
                bump(d, "assign-duplicates");
            }
            opts.push(format!("tp={}:{}", h(&t), ps.iter().map(|p| p.to_string()).collect::<Vec<_>>().join(",")));
        }
    }
    if ncalls == 0 {
        bump(d, "assign-nothing");
    }
    let group = rng.chance(1, 2);
    // one history in five: the group has committed offsets for some of the partitions only (valid ones: the logs hold offsets
    // 0..2), with every kind of fallback - the consumer is created for all its partitions or not at all
    let partial = idx % 5 == 2;
    let group = group || partial;
    if group {
        opts.push(format!("group={}", h("grp")));
        opts.push(format!("storage={}", rng.pick(&["zk", "kafka"])));
    }
    if partial {
        bump(d, "group-with-commits-for-some-partitions");
        let mut any = false;
        for t in &cl.topics {
            for p in 0..t.leaders.len() {
                if t.leaders[p] >= 0 && (!any || rng.chance(1, 2)) {
                    any = true;
                    out.push(format!("COMMITTED {} {} {} {}", h("grp"), h(&t.name), p, rng.below(4)));
                }
            }
        }
        let fb = match idx / 5 % 3 {
            0 => format!("time:{}", rng.below(50)),
            1 => "latest".to_string(),
            _ => "earliest".to_string(),
        };
        bump(d, &format!("partial-commits-fallback-{}", fb.split(':').next().unwrap()));
        opts.push(format!("fallback={}", fb));
    } else {
        opts.push("fallback=earliest".into());
    }
    out.push(format!("OP consumer_create hosts={} {}", cl.bootstrap(), opts.join(" ")));
    out.push("OP subscriptions".into());
    let nops = 3 + rng.below(8);
    // the consumed set is fixed at creation: a topic that grows afterwards, loaded again by the consumer's own client, changes
    // nothing about it
    let grow_at = if rng.chance(1, 3) { Some(rng.below(nops)) } else { None };
    for op_no in 0..nops {
        if grow_at == Some(op_no) {
            bump(d, "topic-grows-after-creation");
            let ti = rng.below(cl.topics.len() as u64) as usize;
            let old = cl.topics[ti].leaders.len();
            let first = cl.brokers[0].0;
            cl.topics[ti].leaders.push(first);
            out.push(format!("TOPIC {} {}", h(&cl.topics[ti].name), old + 1));
            out.push(format!("LEADER {} {} {}", h(&cl.topics[ti].name), old, first));
            out.push(format!("APPEND {} {} plain 0 ~ dd", h(&cl.topics[ti].name), old));
            out.push(if rng.chance(1, 2) { "OP k load_metadata_all".to_string() } else { format!("OP k load_metadata {}", h(&cl.topics[ti].name)) });
            out.push("OP subscriptions".into());
            out.push("OP poll".into());
            out.push(format!("OP seek {} {} 0", h(&cl.topics[ti].name), old));
        }
        let t = if rng.chance(1, 10) { "ghost".to_string() } else { rng.pick(&cl.topics).name.clone() };
        let np = cl.topics.iter().find(|x| x.name == t).map(|x| x.leaders.len()).unwrap_or(2) as i64;
        let p = if rng.chance(1, 8) { *rng.pick(&[np, -1i64]) } else { rng.range(0, np - 1) };
        match rng.below(6) {
            0 | 1 => out.push("OP poll".into()),
            2 => out.push(format!("OP seek {} {} {}", h(&t), p, rng.below(3))),
            3 => out.push(format!("OP consume {} {} {}", h(&t), p, rng.below(3))),
            4 => out.push(format!("OP last_consumed {} {}", h(&t), p)),
            _ => {
                if group {
                    out.push("OP commit".into());
                } else {
                    out.push("OP subscriptions".into());
                }
            }
        }
    }
    out
}

/// C05: batches with duplicate partitions, interleaved topics, unknown destinations at any position, leaderless
/// partitions, acks in {0,1,-1}, all codecs, 1-3 brokers; via the client and via the producer.
pub fn gen_c05(rng: &mut Rng, d: &mut Dist, idx: u64) -> Vec<String> {
    let leaderless = rng.chance(1, 4);
    let mut cl = Cluster::random(rng, 4, leaderless);
    let mut out = cl.setup_lines();
    bump(d, &format!("brokers-{}", cl.brokers.len()));
    if rng.chance(1, 3) {
        out.push(format!("ORDER {}", rng.pick(&["rev", "rot 1", "rot 2"])));
    }
    out.push(format!("OP client_new {}", cl.bootstrap()));
    out.push("OP c load_metadata_all".into());
    let mut uniq = 0u32;
    let ncalls = 1 + rng.below(3);
    for call_no in 0..ncalls {
        // the cluster changes between calls - a topic loses or gains partitions, a leader moves - and the client loads the
        // topic again on its own (no reset), loads everything again, or carries on with what it has
        if call_no > 0 && rng.chance(1, 2) {
            let ti = rng.below(cl.topics.len() as u64) as usize;
            let old = cl.topics[ti].leaders.len();
            let first = cl.brokers[0].0;
            match rng.below(3) {
                0 if old > 1 => {
                    let n = 1 + rng.below(old as u64 - 1) as usize;
                    bump(d, "cluster-topic-shrinks");
                    cl.topics[ti].leaders.truncate(n);
                    out.push(format!("TOPIC {} {}", h(&cl.topics[ti].name), n));
                }
                1 => {
                    let n = old + 1 + rng.below(2) as usize;
                    bump(d, "cluster-topic-grows");
                    cl.topics[ti].leaders.resize(n, first);
                    out.push(format!("TOPIC {} {}", h(&cl.topics[ti].name), n));
                    for p in old..n {
                        out.push(format!("LEADER {} {} {}", h(&cl.topics[ti].name), p, first));
                    }
                }
                _ => {
                    let p = rng.below(old as u64) as usize;
                    let nl = rng.pick(&cl.brokers).0;
                    bump(d, "cluster-leader-moves");
                    cl.topics[ti].leaders[p] = nl;
                    out.push(format!("LEADER {} {} {}", h(&cl.topics[ti].name), p, nl));
                }
            }
            match rng.below(3) {
                0 => {
                    bump(d, "reload-topic-alone");
                    out.push(format!("OP c load_metadata {}", h(&cl.topics[ti].name)));
                }
                1 => {
                    bump(d, "reload-all");
                    out.push("OP c load_metadata_all".into());
                }
                _ => bump(d, "no-reload"),
            }
            // records for every partition the topic had before or has now
            let now = cl.topics[ti].leaders.len();
            let mut line = format!("OP c produce {} 5 0", rng.pick(&[0i64, 1]));
            for p in 0..old.max(now) {
                if rng.chance(2, 3) {
                    uniq += 1;
                    line.push_str(&format!(" {} {} ~ {}", h(&cl.topics[ti].name), p, hex(&uniq.to_be_bytes())));
                }
            }
            if line.ends_with(" 5 0") {
                uniq += 1;
                line.push_str(&format!(" {} {} ~ {}", h(&cl.topics[ti].name), old.max(now) - 1, hex(&uniq.to_be_bytes())));
            }
            out.push(line);
        }
        let comp = rng.below(3);
        out.push(format!("OP c set compression {}", comp));
        bump(d, &format!("codec-{}", comp));
        let acks = *rng.pick(&[0i64, 1, 1, -1]);
        bump(d, &format!("acks-{}", acks));
        let long = rng.chance(1, 6);
        if long {
            bump(d, "batch-long-interleaved");
        }
        let n = if long { 21 + rng.below(80) } else { 1 + rng.below(12) };
        let mut line = format!("OP c produce {} {} 0", acks, 1 + rng.below(30));
        let mut unknown = false;
        for _ in 0..n {
            uniq += 1;
            let (t, p) = if rng.chance(1, 30) {
                unknown = true;
                ("ghost".to_string(), 0i64)
            } else {
                let t = rng.pick(&cl.topics);
                let np = t.leaders.len() as i64;
                let p = if rng.chance(1, 40) {
                    unknown = true;
                    np
                } else {
                    rng.range(0, np - 1)
                };
                if p < np && t.leaders[p as usize] < 0 {
                    unknown = true;
                }
                (t.name.clone(), p)
            };
            // keys: absent, present but empty, or two bytes (an empty key is a key)
            let k = match rng.below(5) {
                0 | 1 => None,
                2 => Some(vec![]),
                _ => Some(rng.bytes(2)),
            };
            let mut v = uniq.to_be_bytes().to_vec();
            let extra = rng.below(4) as usize;
            v.extend(rng.bytes(extra));
            // now and then a value that is present but empty, or absent
            let vtok = match rng.below(20) {
                0 => "-".to_string(),
                1 => "~".to_string(),
                _ => hex(&v),
            };
            line.push_str(&format!(" {} {} {} {}", h(&t), p, opt_tok(&k), vtok));
        }
        bump(d, if unknown { "batch-with-unknown-destination" } else { "batch-all-known" });
        out.push(line);
    }
    // a produce call over every partition fails on the wire part-way; the calls after it get their own confirmations
    if rng.chance(1, 4) {
        bump(d, "a-call-fails-on-the-wire");
        out.push("OP c set compression 0".into());
        out.push(format!("H {} {}", rng.pick(&["fail_recv", "fail_send"]), rng.below(2)));
        let mut line = String::from("OP c produce 1 5 0");
        for t in &cl.topics {
            for p in 0..t.leaders.len() {
                if t.leaders[p] >= 0 {
                    uniq += 1;
                    line.push_str(&format!(" {} {} ~ {}", h(&t.name), p, hex(&uniq.to_be_bytes())));
                }
            }
        }
        out.push(line);
        out.push("H clear_faults".into());
        for _ in 0..(1 + rng.below(3)) {
            let t = rng.pick(&cl.topics);
            let led: Vec<usize> = (0..t.leaders.len()).filter(|&p| t.leaders[p] >= 0).collect();
            if let Some(p) = led.first() {
                uniq += 1;
                out.push(format!("OP c produce 1 5 0 {} {} ~ {}", h(&t.name), p, hex(&uniq.to_be_bytes())));
            }
        }
    }
    // the producer layer on top: built in every way the builder offers, records with explicit partitions
    if rng.chance(1, 2) {
        bump(d, "via-producer");
        let mut opts: Vec<String> = Vec::new();
        let acks = *rng.pick(&[0i64, 1, -1]);
        if rng.chance(2, 3) {
            opts.push(format!("acks={}", acks));
        }
        if rng.chance(2, 3) {
            opts.push(format!("acktimeout={}:{}", rng.below(40), rng.below(1000) * 1_000_000));
        }
        if rng.chance(1, 2) {
            opts.push(format!("partitioner={}", rng.below(5)));
            bump(d, "producer-with-partitioner");
        }
        if rng.chance(1, 3) {
            opts.push(format!("compression={}", rng.below(3)));
        }
        if rng.chance(1, 3) {
            opts.push(format!("idle={}", rng.pick(&[0u64, 60_000, 540000])));
        }
        rng.shuffle(&mut opts);
        let from = if rng.chance(1, 2) { "client".to_string() } else { format!("hosts={}", cl.bootstrap()) };
        out.push(format!("OP producer_create {} {}", from, opts.join(" ")));
        for _ in 0..(1 + rng.below(3)) {
            let mut line = String::from("OP send_all");
            for _ in 0..(1 + rng.below(8)) {
                uniq += 1;
                let t = rng.pick(&cl.topics);
                let led: Vec<usize> = (0..t.leaders.len()).filter(|&p| t.leaders[p] >= 0).collect();
                if led.is_empty() {
                    continue;
                }
                let p = *rng.pick(&led);
                let k = if rng.chance(1, 2) { vec![] } else { rng.bytes(2) };
                let mut v = uniq.to_be_bytes().to_vec();
                let extra = rng.below(4) as usize;
                v.extend(rng.bytes(extra));
                line.push_str(&format!(" {} {} {} {}", h(&t.name), p, if k.is_empty() { "-".to_string() } else { hex(&k) }, hex(&v)));
            }
            if line != "OP send_all" {
                // one producer history in three: the connection is lost under a send (end of stream or a refused write, at
                // the first or a later I/O call): the call fails, nothing is sent a second time, the next send is complete
                let lost = idx % 3 == 1;
                if lost {
                    bump(d, "producer-send-loses-its-connection");
                    out.push(format!("H {} {}", ["eof_read", "fail_send", "eof_read", "fail_recv"][(uniq % 4) as usize], uniq % 3));
                }
                out.push(line);
                if lost {
                    out.push("H clear_faults".into());
                }
            }
        }
    }
    out
}

/// C06: histories of full loads, subset loads and resets over a cluster that changes in between (brokers added,
/// dropped, moved to another address; leaders changed or removed; partition counts grown and shrunk; topics added),
/// with the view and the routing probed after each step; bootstrap lists with unreachable hosts.
pub fn gen_c06(rng: &mut Rng, d: &mut Dist, _idx: u64) -> Vec<String> {
    let mut cl = Cluster::random(rng, 4, true);
    while cl.brokers.len() < 2 {
        let id = cl.brokers.len() as i32 + 1;
        cl.brokers.push((id, format!("b{}", id), 9092));
    }
    let mut out = cl.setup_lines();
    // bootstrap list: 1-4 hosts, any subset unreachable
    let mut boots: Vec<String> = cl.brokers.iter().map(|b| format!("{}:{}", b.1, b.2)).collect();
    if rng.chance(1, 3) {
        boots.insert(0, "dead:1".to_string());
    }
    rng.shuffle(&mut boots);
    let mut any_reachable = false;
    for b in &boots {
        let real = cl.brokers.iter().any(|x| format!("{}:{}", x.1, x.2) == *b);
        if !real || rng.chance(1, 4) {
            out.push(format!("H unreachable {}", h(b)));
            bump(d, "bootstrap-unreachable");
        } else {
            any_reachable = true;
        }
    }
    bump(d, if any_reachable { "bootstrap-some-reachable" } else { "bootstrap-none-reachable" });
    // brokers need not list topics and partitions in id order: every entry carries its own id
    match rng.below(4) {
        0 => out.push("ORDER rev".into()),
        1 => out.push(format!("ORDER rot {}", 1 + rng.below(3))),
        _ => {}
    }
    out.push(format!("OP client_new {}", boots.iter().map(|b| h(b)).collect::<Vec<_>>().join(",")));
    out.push("OP c load_metadata_all".into());
    out.push("OP c topics".into());
    // later connections to brokers must work: clear unreachability of real brokers after the bootstrap
    for b in &boots {
        if cl.brokers.iter().any(|x| format!("{}:{}", x.1, x.2) == *b) {
            out.push(format!("H reachable {}", h(b)));
        }
    }
    let mut next_id = 10;
    let steps = 2 + rng.below(7);
    for _ in 0..steps {
        // mutate the cluster
        match rng.below(8) {
            0 => {
                bump(d, "mut-broker-added");
                let id = next_id;
                next_id += 1;
                cl.brokers.push((id, format!("n{}", id), 9092));
                out.push(format!("BROKER {} {} 9092", id, h(&format!("n{}", id))));
            }
            1 => {
                if cl.brokers.len() > 1 {
                    bump(d, "mut-broker-dropped");
                    let i = 1 + rng.below(cl.brokers.len() as u64 - 1) as usize;
                    let b = cl.brokers.remove(i);
                    out.push(format!("DELBROKER {}", b.0));
                }
            }
            2 => {
                bump(d, "mut-broker-moved");
                let i = rng.below(cl.brokers.len() as u64) as usize;
                // (a third of the moves are to a name that is a proper prefix of the old one, or that the old one is a prefix of)
                let r = rng.below(1000);
                let oldhost = cl.brokers[i].1.clone();
                let newhost = match r % 3 {
                    0 if oldhost.len() > 1 => oldhost[..oldhost.len() - 1].to_string(),
                    1 => format!("{}x", oldhost),
                    _ => format!("m{}", r),
                };
                let newhost = if cl.brokers.iter().any(|b| b.1 == newhost) { format!("m{}", r) } else { newhost };
                cl.brokers[i].1 = newhost.clone();
                out.push(format!("BROKER {} {} {}", cl.brokers[i].0, h(&newhost), cl.brokers[i].2));
            }
            3 | 4 => {
                bump(d, "mut-leader-changed");
                let nb = cl.brokers.len() as u64;
                let ti = rng.below(cl.topics.len() as u64) as usize;
                let p = rng.below(cl.topics[ti].leaders.len() as u64) as usize;
                let l = if rng.chance(1, 4) { -1 } else { cl.brokers[rng.below(nb) as usize].0 };
                cl.topics[ti].leaders[p] = l;
                out.push(format!("LEADER {} {} {}", h(&cl.topics[ti].name), p, l));
            }
            5 => {
                bump(d, "mut-partitions-resized");
                let ti = rng.below(cl.topics.len() as u64) as usize;
                let n = 1 + rng.below(5) as usize;
                let first = cl.brokers[0].0;
                cl.topics[ti].leaders.resize(n, -1);
                out.push(format!("TOPIC {} {}", h(&cl.topics[ti].name), n));
                if rng.chance(1, 2) {
                    cl.topics[ti].leaders[n - 1] = first;
                    out.push(format!("LEADER {} {} {}", h(&cl.topics[ti].name), n - 1, first));
                }
            }
            7 => {
                // a broker is replaced: it leaves, a new node id takes over what it led - seen by the client through a load
                // that need not mention every topic
                if cl.brokers.len() > 1 {
                    bump(d, "mut-broker-replaced");
                    let i = 1 + rng.below(cl.brokers.len() as u64 - 1) as usize;
                    let gone = cl.brokers.remove(i);
                    out.push(format!("DELBROKER {}", gone.0));
                    let id = next_id;
                    next_id += 1;
                    // the newcomer is listed wherever the broker pleases
                    cl.brokers.insert(rng.below(cl.brokers.len() as u64 + 1) as usize, (id, format!("n{}", id), 9092));
                    out.push(format!("BROKER {} {} 9092", id, h(&format!("n{}", id))));
                    if rng.chance(1, 2) {
                        out.push(format!("ORDER {}", rng.pick(&["rev", "rot 1", "rot 2", "req"])));
                    }
                    for t in cl.topics.iter_mut() {
                        for p in 0..t.leaders.len() {
                            if t.leaders[p] == gone.0 && rng.chance(2, 3) {
                                t.leaders[p] = id;
                                out.push(format!("LEADER {} {} {}", h(&t.name), p, id));
                            }
                        }
                    }
                }
            }
            6 => {
                bump(d, "mut-topic-added");
                let name = format!("new{}", rng.below(100));
                if !cl.topics.iter().any(|t| t.name == name) {
                    let first = cl.brokers[0].0;
                    cl.topics.push(Topic { name: name.clone(), leaders: vec![first] });
                    out.push(format!("TOPIC {} 1", h(&name)));
                    out.push(format!("LEADER {} 0 {}", h(&name), first));
                }
            }
            _ => {}
        }
        // load
        match rng.below(6) {
            0 | 1 => {
                bump(d, "load-all");
                out.push("OP c load_metadata_all".into());
            }
            2 | 3 => {
                bump(d, "load-subset");
                let k = 1 + rng.below(2);
                let ts: Vec<String> = (0..k).map(|_| h(&rng.pick(&cl.topics).name)).collect();
                out.push(format!("OP c load_metadata {}", ts.join(" ")));
            }
            4 => {
                bump(d, "reset");
                out.push("OP c reset_metadata".into());
            }
            _ => {
                bump(d, "no-load");
            }
        }
        out.push("OP c topics".into());
        // probe the routing with every partition the cluster has (unknown ones are silently left out)
        let mut fm = String::from("OP c fetch_messages");
        for t in &cl.topics {
            for p in 0..t.leaders.len() {
                fm.push_str(&format!(" {} {} 0 -1", h(&t.name), p));
            }
        }
        out.push(fm);
        if rng.chance(1, 2) {
            let ts: Vec<String> = cl.topics.iter().map(|t| h(&t.name)).collect();
            out.push(format!("OP c fetch_offsets -1 {}", ts.join(" ")));
        }
    }
    out
}

fn msg_tokens(rng: &mut Rng, d: &mut Dist, off: i64) -> String {
    let k = match rng.below(4) {
        0 => "~".to_string(),
        1 => "-".to_string(),
        _ => hex(&rng.rbytes(1, 6)),
    };
    let v = match rng.below(8) {
        0 => "~".to_string(),
        1 => "-".to_string(),
        2 => {
            bump(d, "value-large");
            hex(&rng.rbytes(200, 3000))
        }
        _ => hex(&rng.rbytes(1, 20)),
    };
    format!(" {} {} {}", off, k, v)
}

/// a wrapper message (attr = codec) around an inner message set compressed by the *real* encoders
/// (flate2 at a random level, snap raw blocks in xerial framing with a random chunk size)
pub fn real_wrapper(rng: &mut Rng, codec: u8, last_offset: i64, inner: &[u8]) -> Vec<u8> {
    use std::io::Write;
    let payload: Vec<u8> = if codec == 1 {
        let level = *rng.pick(&[1u32, 6, 9]);
        let mut e = flate2::write::GzEncoder::new(Vec::new(), flate2::Compression::new(level));
        e.write_all(inner).unwrap();
        e.finish().unwrap()
    } else {
        let chunk = *rng.pick(&[16usize, 100, 4096, 1 << 16]);
        let mut out = vec![0x82, b'S', b'N', b'A', b'P', b'P', b'Y', 0, 0, 0, 0, 1, 0, 0, 0, 1];
        // a block that uncompresses to nothing (length 1, the varint 0) is legal framing and carries no data; one in
        // five frames gets one, placed before, between or after the data blocks (chosen from the input, not the PRNG)
        let nchunks = (inner.len() + chunk - 1) / chunk;
        let empty_at = if (inner.len() as i64 + last_offset).rem_euclid(5) == 0 { Some(inner.len() % (nchunks + 1)) } else { None };
        for (i, c) in inner.chunks(chunk).enumerate() {
            if empty_at == Some(i) {
                out.extend([0u8, 0, 0, 1, 0]);
            }
            let mut buf = vec![0; snap::raw::max_compress_len(c.len())];
            let n = snap::raw::Encoder::new().compress(c, &mut buf).unwrap();
            out.extend((n as i32).to_be_bytes());
            out.extend(&buf[..n]);
        }
        if empty_at == Some(nchunks) {
            out.extend([0u8, 0, 0, 1, 0]);
        }
        out
    };
    raw_msg(last_offset, codec, None, Some(&payload), 0)
}

/// C02: logs over {plain, gzip, snappy, nested} batches (Lean stored-block / literal encoders *and* real flate2 / snap
/// output), offset gaps, null / empty / binary / large payloads, several topics x partitions; fetches at offsets
/// below / inside / at the end of batches with sizes that cut entries at arbitrary byte positions.
pub fn gen_c02(rng: &mut Rng, d: &mut Dist, idx: u64) -> Vec<String> {
    // "for any number of topics/partitions per response": one response with more partitions than any internal
    // pre-allocation cap (4096), every one carrying a message, a second topic behind it
    if idx == 7 {
        let n = *rng.pick(&[4097usize, 4100, 5000]);
        bump(d, &format!("partitions-in-one-response-{}", n));
        let mut out = vec![format!("BROKER 1 {} 9092", h("b1")), format!("TOPIC {} {}", h("big"), n), format!("TOPIC {} 1", h("z"))];
        out.push(format!("LEADER {} 0 1", h("z")));
        out.push(format!("APPEND {} 0 plain 0 ~ 7a", h("z")));
        for p in 0..n {
            out.push(format!("LEADER {} {} 1", h("big"), p));
            out.push(format!("APPEND {} {} plain 0 ~ {:04x}", h("big"), p, p));
        }
        out.push("COORD 1".into());
        out.push(format!("OP client_new {}", h("b1:9092")));
        out.push("OP c load_metadata_all".into());
        let mut line = String::from("OP c fetch_messages");
        for p in 0..n {
            line.push_str(&format!(" {} {} 0 -1", h("big"), p));
        }
        line.push_str(&format!(" {} 0 0 -1", h("z")));
        out.push(line);
        return out;
    }
    let cl = Cluster::random(rng, 3, false);
    let mut out = cl.setup_lines();
    let mut sizes: Vec<(String, usize, i64, usize)> = Vec::new(); // topic, partition, end offset, approx bytes
    for t in &cl.topics {
        for p in 0..t.leaders.len() {
            let mut off: i64 = rng.below(3) as i64;
            let nb = rng.below(6);
            let mut bytes = 0usize;
            for _ in 0..nb {
                let n = 1 + rng.below(4) as i64;
                let kind = rng.below(8);
                // messages of this batch
                let mut toks = String::new();
                let mut plain: Vec<u8> = Vec::new();
                let first = off;
                for _ in 0..n {
                    let tk = msg_tokens(rng, d, off);
                    // also render the plain bytes for the real-encoder variants
                    let parts: Vec<&str> = tk.trim().split(' ').collect();
                    let k = if parts[1] == "~" { None } else { Some(crate::lean::unhex(parts[1])) };
                    let v = if parts[2] == "~" { None } else { Some(crate::lean::unhex(parts[2])) };
                    plain.extend(raw_msg(off, 0, k.as_deref(), v.as_deref(), 0));
                    toks.push_str(&tk);
                    off += 1 + if rng.chance(1, 5) { rng.below(3) as i64 } else { 0 };
                }
                let last = {
                    // last message offset of the batch
                    let parts: Vec<&str> = toks.trim().split(' ').collect();
                    parts[parts.len() - 3].parse::<i64>().unwrap()
                };
                bytes += plain.len();
                match kind {
                    0 | 1 | 2 => {
                        bump(d, "batch-plain");
                        out.push(format!("APPEND {} {} plain{}", h(&t.name), p, toks));
                    }
                    3 => {
                        bump(d, "batch-gzip-stored");
                        out.push(format!("APPEND {} {} comp 1 {}{}", h(&t.name), p, 1000, toks));
                    }
                    4 => {
                        bump(d, "batch-snappy-literal");
                        out.push(format!("APPEND {} {} comp 2 {}{}", h(&t.name), p, rng.pick(&[7u32, 100, 100000]), toks));
                    }
                    5 => {
                        bump(d, "batch-gzip-flate2");
                        out.push(format!("APPENDRAW {} {} {} {} {}", h(&t.name), p, first, last, hex(&real_wrapper(rng, 1, last, &plain))));
                    }
                    6 => {
                        bump(d, "batch-snappy-snap");
                        out.push(format!("APPENDRAW {} {} {} {} {}", h(&t.name), p, first, last, hex(&real_wrapper(rng, 2, last, &plain))));
                    }
                    _ => {
                        bump(d, "batch-nested");
                        let c1 = 1 + rng.below(2) as u8;
                        let c2 = 1 + rng.below(2) as u8;
                        let inner = real_wrapper(rng, c2, last, &plain);
                        out.push(format!("APPENDRAW {} {} {} {} {}", h(&t.name), p, first, last, hex(&real_wrapper(rng, c1, last, &inner))));
                    }
                }
            }
            sizes.push((t.name.clone(), p, off, bytes));
        }
    }
    if rng.chance(1, 3) {
        out.push(format!("ORDER {}", rng.pick(&["rev", "rot 1"])));
    }
    out.push(format!("OP client_new {}", cl.bootstrap()));
    if rng.chance(1, 4) {
        out.push("OP c set crc 0".into());
    }
    out.push("OP c load_metadata_all".into());
    let nf = 1 + rng.below(4);
    // now and then one of the calls fails on the wire (a broker's reply is lost, a request cannot be written): the calls after
    // it - same brokers, other offsets - must expose what was sent for *them*
    let fail_at = if rng.chance(1, 4) { Some(rng.below(nf)) } else { None };
    for call_no in 0..nf {
        if fail_at == Some(call_no) {
            bump(d, "a-call-fails-on-the-wire");
            out.push(format!("H {} {}", rng.pick(&["fail_recv", "fail_send"]), rng.below(2)));
            let mut line = String::from("OP c fetch_messages");
            for (t, p, _, _) in &sizes {
                line.push_str(&format!(" {} {} 0 -1", h(t), p));
            }
            out.push(line);
            out.push("H clear_faults".into());
        }
        let mut line = String::from("OP c fetch_messages");
        for (t, p, end, bytes) in &sizes {
            if rng.chance(1, 5) {
                continue;
            }
            let off = if *end == 0 { 0 } else { rng.range(0, *end) };
            // fetch sizes that cut entries at arbitrary byte positions, or everything
            let mb = if rng.chance(1, 3) { -1 } else { 1 + rng.below(*bytes as u64 + 40) as i64 };
            bump(d, if mb < 0 { "fetch-all" } else { "fetch-cut" });
            line.push_str(&format!(" {} {} {} {}", h(t), p, off, mb));
        }
        out.push(line);
    }
    out
}

/// flip `nbits` consecutive-window bits: a burst of length `len` starting at bit `start` (first and last bit of the
/// burst always flipped, the ones in between at random)
pub fn burst(rng: &mut Rng, data: &mut [u8], start: usize, len: usize) {
    for i in 0..len {
        let pos = start + i;
        if pos / 8 >= data.len() {
            break;
        }
        if i == 0 || i == len - 1 || rng.chance(1, 2) {
            data[pos / 8] ^= 1 << (pos % 8);
        }
    }
}

/// C04: corpus of message sets (plain, gzip, snappy, inner with the wrapper checksum intact) with one message corrupted
/// in its checksum field or its covered bytes by a single-bit flip, a double-bit flip or a burst of up to 32 bits;
/// validation on and off.
pub fn gen_c04(rng: &mut Rng, d: &mut Dist, idx: u64) -> Vec<String> {
    // exhaustive part (first indices): every single-bit flip of the checksum field and covered bytes of every message
    // of a fixed two-message set, in the three layouts, validation on
    {
        let m0 = raw_msg(0, 0, None, Some(b"a"), 0);
        let m1 = raw_msg(1, 0, Some(b"key"), Some(b"value-1"), 0);
        let bits0 = (m0.len() - 12) * 8;
        let bits1 = (m1.len() - 12) * 8;
        let per_layout = (bits0 + bits1) as u64;
        if idx % 2 == 0 && idx / 2 < 3 * per_layout {
            let idx = idx / 2;
            let layout = idx / per_layout;
            let b = (idx % per_layout) as usize;
            let (mut a0, mut a1) = (m0.clone(), m1.clone());
            if b < bits0 {
                let p = 12 * 8 + b;
                a0[p / 8] ^= 1 << (p % 8);
            } else {
                let p = 12 * 8 + (b - bits0);
                a1[p / 8] ^= 1 << (p % 8);
            }
            bump(d, "exhaustive-single-bit");
            let all = [a0, a1].concat();
            let mut out = vec![
                format!("BROKER 1 {} 9092", h("b1")),
                format!("TOPIC {} 1", h("t")),
                format!("LEADER {} 0 1", h("t")),
            ];
            let bytes = match layout {
                0 => all,
                1 => real_wrapper(rng, 1, 1, &all),
                _ => real_wrapper(rng, 2, 1, &all),
            };
            out.push(format!("APPENDRAW {} 0 0 1 {}", h("t"), hex(&bytes)));
            out.push(format!("OP client_new {}", h("b1:9092")));
            out.push("OP c load_metadata_all".into());
            out.push(format!("OP c fetch_messages {} 0 0 -1", h("t")));
            return out;
        }
    }
    let cl = Cluster::random(rng, 1, false);
    let mut out = cl.setup_lines();
    let t = &cl.topics[0];
    // 1-4 messages; one of them is the victim
    let n = 1 + rng.below(4) as usize;
    let victim = rng.below(n as u64) as usize;
    let mut msgs: Vec<Vec<u8>> = Vec::new();
    for i in 0..n {
        let k = if rng.chance(1, 2) { None } else { Some(rng.rbytes(1, 5)) };
        let v = Some(rng.rbytes(1, 40));
        msgs.push(raw_msg(i as i64, 0, k.as_deref(), v.as_deref(), 0));
    }
    // corrupt the victim: region = checksum field (bytes 12..16) or covered bytes (16..)
    let region_field = rng.chance(1, 2);
    bump(d, if region_field { "corrupt-crc-field" } else { "corrupt-covered-bytes" });
    let (lo, hi) = if region_field { (12 * 8, 16 * 8) } else { (16 * 8, msgs[victim].len() * 8) };
    let kind = rng.below(4);
    {
        let m = &mut msgs[victim];
        match kind {
            0 => {
                bump(d, "single-bit");
                let p = lo + rng.below((hi - lo) as u64) as usize;
                m[p / 8] ^= 1 << (p % 8);
            }
            1 => {
                bump(d, "double-bit");
                let p = lo + rng.below((hi - lo) as u64) as usize;
                let mut q = lo + rng.below((hi - lo) as u64) as usize;
                if q == p {
                    q = if p + 1 < hi { p + 1 } else { p - 1 };
                }
                m[p / 8] ^= 1 << (p % 8);
                m[q / 8] ^= 1 << (q % 8);
            }
            2 => {
                bump(d, "burst<=32");
                let len = 2 + rng.below(31) as usize;
                let maxstart = if hi - lo > len { hi - lo - len } else { 0 };
                let start = lo + rng.below(maxstart as u64 + 1) as usize;
                let len = len.min(hi - start);
                burst(rng, m, start, len);
            }
            _ => {
                bump(d, "intact");
            }
        }
    }
    let layout = rng.below(4);
    let all: Vec<u8> = msgs.concat();
    match layout {
        0 | 1 => {
            bump(d, "layout-plain");
            out.push(format!("APPENDRAW {} 0 0 {} {}", h(&t.name), n - 1, hex(&all)));
        }
        2 => {
            bump(d, "layout-inner-of-gzip");
            out.push(format!("APPENDRAW {} 0 0 {} {}", h(&t.name), n - 1, hex(&real_wrapper(rng, 1, n as i64 - 1, &all))));
        }
        _ => {
            bump(d, "layout-inner-of-snappy");
            out.push(format!("APPENDRAW {} 0 0 {} {}", h(&t.name), n - 1, hex(&real_wrapper(rng, 2, n as i64 - 1, &all))));
        }
    }
    // sometimes corrupt a wrapper itself instead (second log entry)
    if rng.chance(1, 4) {
        bump(d, "corrupt-wrapper");
        let inner = raw_msg(n as i64, 0, None, Some(b"inner"), 0);
        let wc = 1 + rng.below(2) as u8;
        let mut w = real_wrapper(rng, wc, n as i64, &inner);
        let p = 12 * 8 + rng.below(((w.len() - 12) * 8) as u64) as usize;
        w[p / 8] ^= 1 << (p % 8);
        out.push(format!("APPENDRAW {} 0 {} {} {}", h(&t.name), n, n, hex(&w)));
    }
    // a reply covering several partitions, one of them answered with an error code, listed before or after the partition
    // that holds the corrupted message (the checksum of every message of the reply counts, whatever came before it)
    if rng.chance(1, 4) {
        bump(d, "reply-with-a-failed-partition-next-to-the-corrupted-one");
        let on = rng.chance(3, 4);
        bump(d, if on { "validation-on" } else { "validation-off" });
        let other = h("zz-other");
        // (every other history with several brokers: the healthy partitions are led by another broker than the corrupted
        // one - a call that spans brokers fails as a whole all the same)
        let ob = if idx % 2 == 1 && cl.brokers.len() > 1 {
            bump(d, "healthy-partitions-on-another-broker");
            cl.brokers[1].0
        } else {
            cl.brokers[0].0
        };
        out.push(format!("TOPIC {} 2", other));
        out.push(format!("LEADER {} 0 {}", other, ob));
        out.push(format!("LEADER {} 1 {}", other, ob));
        out.push(format!("APPEND {} 0 plain 0 ~ aa", other));
        // the victim's topic has one partition led by some broker; make everything live on the first broker
        out.push(format!("LEADER {} 0 {}", h(&t.name), cl.brokers[0].0));
        if rng.chance(1, 2) {
            out.push(format!("ORDER {}", rng.pick(&["rev", "rot 1"])));
        }
        out.push(format!("OP client_new {}", cl.bootstrap()));
        out.push(format!("OP c set crc {}", if on { 1 } else { 0 }));
        out.push("OP c load_metadata_all".into());
        // an error code on one of the other partitions: injected, or earned by asking beyond the log end
        let code = *rng.pick(&[1i64, 6, 3, 9]);
        let mut parts = vec![
            format!("{} 0 0 -1", h(&t.name)),
            if rng.chance(1, 2) { format!("{} 0 99 -1", other) } else { format!("{} 0 0 -1", other) },
            format!("{} 1 0 -1", other),
        ];
        if rng.chance(1, 2) {
            out.push(format!("FAULT 1 {} {} {} 1", other, rng.below(2), code));
        }
        rng.shuffle(&mut parts);
        out.push(format!("OP c fetch_messages {}", parts.join(" ")));
        return out;
    }
    // a third of the cases fetch through a consumer: the setting comes from the builder (whatever the handed-in client
    // says), from the handed-in client, or is the default
    if rng.chance(1, 3) {
        let on = rng.chance(2, 3);
        bump(d, if on { "validation-on" } else { "validation-off" });
        let mut opts = vec![format!("topic={}", h(&t.name)), "fallback=earliest".to_string()];
        let from = match rng.below(4) {
            0 => {
                bump(d, "consumer-from-hosts");
                if !on || rng.chance(1, 2) {
                    opts.push(format!("crc={}", if on { 1 } else { 0 }));
                }
                format!("hosts={}", cl.bootstrap())
            }
            1 => {
                bump(d, "consumer-from-client-inherits");
                out.push(format!("OP client_new {}", cl.bootstrap()));
                out.push(format!("OP c set crc {}", if on { 1 } else { 0 }));
                out.push("OP c load_metadata_all".into());
                "client".to_string()
            }
            _ => {
                bump(d, "consumer-from-client-overrides");
                out.push(format!("OP client_new {}", cl.bootstrap()));
                if rng.chance(2, 3) {
                    out.push(format!("OP c set crc {}", if on { 0 } else { 1 }));
                }
                out.push("OP c load_metadata_all".into());
                opts.push(format!("crc={}", if on { 1 } else { 0 }));
                "client".to_string()
            }
        };
        rng.shuffle(&mut opts);
        out.push(format!("OP consumer_create {} {}", from, opts.join(" ")));
        out.push("OP poll".into());
        return out;
    }
    out.push(format!("OP client_new {}", cl.bootstrap()));
    let on = rng.chance(2, 3);
    bump(d, if on { "validation-on" } else { "validation-off" });
    out.push(format!("OP c set crc {}", if on { 1 } else { 0 }));
    out.push("OP c load_metadata_all".into());
    // the fetch may start anywhere inside the entry: the broker still returns the whole entry, messages below the asked
    // offset included, and every one of them is a fetched message whose checksum counts
    let from = if rng.chance(1, 2) { 0 } else { rng.below(n as u64) };
    bump(d, if from == 0 { "fetch-from-start" } else { "fetch-from-inside" });
    out.push(format!("OP c fetch_messages {} 0 {} -1", h(&t.name), from));
    out
}

/// append 1-3 random batches to a partition log starting at `off`; returns the new end offset
pub fn append_batches(rng: &mut Rng, d: &mut Dist, out: &mut Vec<String>, topic: &str, p: usize, mut off: i64, maxb: u64) -> i64 {
    let nb = 1 + rng.below(maxb);
    for _ in 0..nb {
        let n = 1 + rng.below(4) as i64;
        let mut toks = String::new();
        let mut plain: Vec<u8> = Vec::new();
        let first = off;
        let mut last = off;
        for _ in 0..n {
            let k = if rng.chance(1, 3) { None } else { Some(rng.rbytes(0, 4)) };
            let v = if rng.chance(1, 8) { None } else { Some(rng.rbytes(0, 12)) };
            plain.extend(raw_msg(off, 0, k.as_deref(), v.as_deref(), 0));
            toks.push_str(&format!(" {} {} {}", off, opt_tok(&k), opt_tok(&v)));
            last = off;
            off += 1 + if rng.chance(1, 6) { rng.below(3) as i64 } else { 0 };
        }
        match rng.below(7) {
            0 | 1 | 2 => {
                bump(d, "batch-plain");
                out.push(format!("APPEND {} {} plain{}", h(topic), p, toks));
            }
            3 => {
                bump(d, "batch-gzip");
                out.push(format!("APPENDRAW {} {} {} {} {}", h(topic), p, first, last, hex(&real_wrapper(rng, 1, last, &plain))));
            }
            4 => {
                bump(d, "batch-snappy");
                out.push(format!("APPENDRAW {} {} {} {} {}", h(topic), p, first, last, hex(&real_wrapper(rng, 2, last, &plain))));
            }
            5 => {
                bump(d, "batch-lean-codec");
                out.push(format!("APPEND {} {} comp {} 50{}", h(topic), p, 1 + rng.below(2), toks));
            }
            _ => {
                bump(d, "batch-nested");
                let c1 = 1 + rng.below(2) as u8;
                let c2 = 1 + rng.below(2) as u8;
                let inner = real_wrapper(rng, c2, last, &plain);
                out.push(format!("APPENDRAW {} {} {} {} {}", h(topic), p, first, last, hex(&real_wrapper(rng, c1, last, &inner))));
            }
        }
    }
    off
}

/// C01: cluster layouts x partition logs (gaps, batch boundaries, codecs, empty partitions next to non-empty ones,
/// entries cut by max_bytes) x response orders x histories of poll / seek / appends / injected partition errors /
/// I/O failures, finished by fault-free polls until one returns empty.
pub fn gen_c01(rng: &mut Rng, d: &mut Dist, idx: u64) -> Vec<String> {
    if idx % 10 == 9 {
        return gen_unusual_fetch_shapes(rng, d);
    }
    let cl = Cluster::random(rng, 4, true);
    let mut out = cl.setup_lines();
    bump(d, &format!("brokers-{}", cl.brokers.len()));
    let mut ends: Vec<(String, usize, i64)> = Vec::new();
    for t in &cl.topics {
        for p in 0..t.leaders.len() {
            let mut off = rng.below(3) as i64;
            if t.leaders[p] >= 0 && !rng.chance(1, 3) {
                off = append_batches(rng, d, &mut out, &t.name, p, off, 3);
            } else {
                bump(d, "partition-empty");
            }
            ends.push((t.name.clone(), p, off));
        }
    }
    match rng.below(4) {
        0 => out.push("ORDER rev".into()),
        1 => out.push(format!("ORDER rot {}", 1 + rng.below(3))),
        _ => {}
    }
    // fetch size: generous, or small enough to cut entries (with a retry limit that still lets every entry through)
    let small = rng.chance(1, 3);
    let mut opts: Vec<String> = cl.topics.iter().map(|t| format!("topic={}", h(&t.name))).collect();
    opts.push("fallback=earliest".into());
    if small {
        bump(d, "fetch-size-small");
        opts.push(format!("maxbytes={}", 40 + rng.below(200)));
        if rng.chance(2, 3) {
            opts.push("retrylimit=1000000".into());
        } else {
            // some entries fit no permitted size: they are reported, the other partitions must lose nothing
            bump(d, "retry-limit-too-small");
            opts.push(format!("retrylimit={}", *rng.pick(&[0u32, 64, 300])));
        }
    }
    rng.shuffle(&mut opts);
    out.push(format!("OP consumer_create hosts={} {}", cl.bootstrap(), opts.join(" ")));
    let nops = 2 + rng.below(10);
    for _ in 0..nops {
        // with small fetch sizes partitions wait for a fetch of their own: seek more often in between
        let r = rng.below(10);
        let r = if small && (r == 5 || r == 6) { 2 } else { r };
        match r {
            0 => {
                // inject a partition error into the next fetch
                let t = rng.pick(&cl.topics);
                let p = rng.below(t.leaders.len() as u64);
                out.push(format!("FAULT 1 {} {} {} 1", h(&t.name), p, rng.pick(&[1i64, 3, 6, 9, 100])));
                bump(d, "fault-partition-error");
                out.push("OP poll".into());
            }
            1 => {
                bump(d, "fault-io");
                out.push(format!("H {} 0", rng.pick(&["fail_send", "fail_recv"])));
                out.push("OP poll".into());
                out.push("H clear_faults".into());
            }
            2 => {
                bump(d, "seek");
                let (t, p, end) = rng.pick(&ends[..]).clone();
                out.push(format!("OP seek {} {} {}", h(&t), p, if end == 0 { 0 } else { rng.range(0, end) }));
            }
            3 | 4 => {
                bump(d, "append");
                let i = rng.below(ends.len() as u64) as usize;
                let (t, p, end) = ends[i].clone();
                let leader = cl.topics.iter().find(|x| x.name == t).unwrap().leaders[p];
                if leader >= 0 {
                    let ne = append_batches(rng, d, &mut out, &t, p, end, 2);
                    ends[i].2 = ne;
                }
            }
            _ => {
                bump(d, "poll");
                out.push("OP poll".into());
            }
        }
    }
    // drain: fault-free polls until empty (bounded)
    out.push("H clear_faults".into());
    for _ in 0..40 {
        out.push("OP poll".into());
    }
    out
}

/// C08: histories over {poll, mark message consumed (any delivered offset, also lower ones), commit, commit failing with an
/// error code or a lost connection}, a crash (drop and re-create the consumer) at random points, both offset storages.
pub fn gen_c08(rng: &mut Rng, d: &mut Dist, _idx: u64) -> Vec<String> {
    let cl = Cluster::random(rng, 3, false);
    let mut out = cl.setup_lines();
    let mut ends: Vec<(String, usize, i64)> = Vec::new();
    for t in &cl.topics {
        for p in 0..t.leaders.len() {
            let mut toks = String::new();
            let n = 3 + rng.below(8) as i64;
            for o in 0..n {
                toks.push_str(&format!(" {} ~ {:02x}", o, o));
            }
            out.push(format!("APPEND {} {} plain{}", h(&t.name), p, toks));
            ends.push((t.name.clone(), p, n));
        }
    }
    let storage = *rng.pick(&["zk", "kafka"]);
    bump(d, &format!("storage-{}", storage));
    let topics: Vec<String> = cl.topics.iter().map(|t| format!("topic={}", h(&t.name))).collect();
    // half of the consumers fetch a few messages per poll, so that the sets of successive polls cover successive stretches of
    // a log (marking an older set, or a set behind a mark already made, must never move a mark backwards)
    let small = rng.chance(1, 2);
    if small {
        bump(d, "few-messages-per-poll");
    }
    let create = format!(
        "OP consumer_create hosts={} group={} storage={} fallback={} {}{}",
        cl.bootstrap(),
        h("grp"),
        storage,
        rng.pick(&["earliest", "earliest", "latest"]),
        topics.join(" "),
        if small { format!(" maxbytes={} retrylimit=100000", 60 + rng.below(60)) } else { String::new() }
    );
    out.push(create.clone());
    out.push("OP k set retry_backoff_ms 0".into());
    out.push("OP k set retry_max 2".into());
    let nops = 4 + rng.below(16);
    for _ in 0..nops {
        match rng.below(12) {
            0 | 1 | 2 => {
                bump(d, "poll");
                out.push("OP poll".into());
            }
            3 | 4 | 5 | 6 => {
                bump(d, "mark");
                let (t, p, n) = rng.pick(&ends[..]).clone();
                out.push(format!("OP consume {} {} {}", h(&t), p, rng.below(n as u64)));
                if rng.chance(1, 3) {
                    out.push(format!("OP last_consumed {} {}", h(&t), p));
                }
            }
            7 | 8 => {
                bump(d, "commit-ok");
                out.push("OP commit".into());
            }
            9 => {
                bump(d, "commit-error-code");
                out.push(format!("SCRIPT 8 {}", rng.pick(&[29i64, 12, 14, 16, 7, -1, -1, 100, -32768, 32767])));
                out.push("OP commit".into());
                out.push("SCRIPT 8".into());
            }
            10 => {
                bump(d, "commit-lost-connection");
                out.push(format!("H {} 0", rng.pick(&["fail_send", "fail_recv"])));
                out.push("OP commit".into());
                out.push("H clear_faults".into());
            }
            _ => {
                bump(d, "crash-and-restart");
                out.push("OP consumer_drop".into());
                out.push(create.clone());
                out.push("OP k set retry_backoff_ms 0".into());
                out.push("OP k set retry_max 2".into());
                out.push("OP poll".into());
            }
        }
    }
    // a final restart: must resume at what the coordinator stored
    out.push("OP consumer_drop".into());
    out.push(create);
    out.push("OP poll".into());
    out
}

/// C17: a large entry of size s against fetch size `base` and retry limit `lim`: s below / equal / between / above;
/// lim in {0, < s, = s, > s}; the large entry first / middle / last in the log; single- vs multi-partition consumers.
pub fn gen_c17(rng: &mut Rng, d: &mut Dist, idx: u64) -> Vec<String> {
    let multi = rng.chance(1, 2);
    bump(d, if multi { "multi-partition" } else { "single-partition" });
    let np = if multi { 2 + rng.below(2) as usize } else { 1 };
    let mut out = vec![
        format!("BROKER 1 {} 9092", h("b1")),
        format!("TOPIC {} {}", h("t"), np),
    ];
    // the partitions may sit on one broker, or the one with the large entry alone on its own broker (one reply per broker)
    let two = multi && rng.chance(1, 2);
    if two {
        bump(d, "two-brokers");
        out.insert(1, format!("BROKER 2 {} 9092", h("b2")));
    }
    for p in 0..np {
        out.push(format!("LEADER {} {} {}", h("t"), p, if two && p > 0 { 2 } else { 1 }));
    }
    let base: i64 = *rng.pick(&[64i64, 100, 256]);
    // the victim partition 0: small messages and one large entry
    let big_val = *rng.pick(&[base as usize / 2, base as usize - 26, base as usize, base as usize * 3, base as usize * 9]);
    let pos = rng.below(3);
    bump(d, &format!("large-entry-{}", ["first", "middle", "last"][pos as usize]));
    let mut off = 0i64;
    let mut small = |out: &mut Vec<String>, off: &mut i64, p: usize, n: u64| {
        for _ in 0..n {
            out.push(format!("APPEND {} {} plain {} ~ {:02x}", h("t"), p, off, *off as u8));
            *off += 1;
        }
    };
    if pos > 0 {
        small(&mut out, &mut off, 0, 1 + rng.below(3));
    }
    let big = raw_msg(off, 0, None, Some(&vec![0xABu8; big_val]), 0);
    let s = big.len() as i64;
    out.push(format!("APPENDRAW {} 0 {} {} {}", h("t"), off, off, hex(&big)));
    off += 1;
    if pos < 2 {
        small(&mut out, &mut off, 0, 1 + rng.below(3));
    }
    for p in 1..np {
        let mut o = 0i64;
        small(&mut out, &mut o, p, rng.below(4));
        // now and then a second partition is stuck behind a large entry of its own at the same time
        if rng.chance(1, 3) {
            bump(d, "second-partition-with-large-entry");
            let sz = *rng.pick(&[big_val, base as usize * 2, base as usize * 9]);
            let b2 = raw_msg(o, 0, None, Some(&vec![0xCDu8; sz]), 0);
            out.push(format!("APPENDRAW {} {} {} {} {}", h("t"), p, o, o, hex(&b2)));
            o += 1;
        }
        small(&mut out, &mut o, p, 1 + rng.below(3));
    }
    let rel = if s < base { "below-base" } else if s == base { "equal-base" } else { "above-base" };
    bump(d, &format!("entry-size-{}", rel));
    let lim: i64 = match rng.below(5) {
        0 => 0,
        1 => s - 1,
        2 => s,
        3 => s + rng.below(500) as i64,
        _ => s * 4,
    };
    bump(d, &format!("limit-{}", if lim == 0 { "0" } else if lim < s { "below-size" } else if lim == s { "equals-size" } else { "above-size" }));
    // the two builder calls in either order: what counts is the pair of values the consumer ends up with
    if idx % 2 == 0 {
        out.push(format!("OP consumer_create hosts={} topic={} fallback=earliest maxbytes={} retrylimit={}", h("b1:9092"), h("t"), base, lim));
    } else {
        bump(d, "retry-limit-set-before-fetch-size");
        out.push(format!("OP consumer_create hosts={} topic={} fallback=earliest retrylimit={} maxbytes={}", h("b1:9092"), h("t"), lim, base));
    }
    // half of the histories are disturbed: a poll (also the one that fetches a partition alone) fails with a partition error
    // or a lost connection, or the application seeks (past the large entry, or back to it) in between
    let disturbed = rng.chance(1, 2);
    if disturbed {
        bump(d, "disturbed");
    }
    for _ in 0..(14 + rng.below(10)) {
        if disturbed {
            match rng.below(8) {
                0 => {
                    bump(d, "disturb-partition-error");
                    out.push(format!("FAULT 1 {} {} {} 1", h("t"), rng.below(np as u64), rng.pick(&[6i64, 5, 3])));
                }
                1 => {
                    bump(d, "disturb-io");
                    out.push(format!("H {} 0", rng.pick(&["fail_send", "fail_recv"])));
                    out.push("OP poll".into());
                    out.push("H clear_faults".into());
                    continue;
                }
                2 => {
                    bump(d, "disturb-seek");
                    out.push(format!("OP seek {} 0 {}", h("t"), rng.range(0, off)));
                }
                _ => {}
            }
        }
        out.push("OP poll".into());
    }
    out
}

/// C15: every API under stream scripts: writes accepting only part of the buffer, reads returning a few bytes at a
/// time, end-of-stream / time-out (reply arrives late) / error at a random I/O call index; followed by further calls
/// on the same client whose results must be their own.
pub fn gen_c15(rng: &mut Rng, d: &mut Dist, _idx: u64) -> Vec<String> {
    let cl = Cluster::random(rng, 3, false);
    let mut out = cl.setup_lines();
    for t in &cl.topics {
        for p in 0..t.leaders.len() {
            let e = rng.below(5) as i64;
            out.push(format!("EARLIEST {} {} {}", h(&t.name), p, e));
            out.push(format!("APPEND {} {} plain {} ~ aa {} ~ bb", h(&t.name), p, e, e + 1));
            out.push(format!("HW {} {} {}", h(&t.name), p, e + 2 + rng.below(9) as i64));
        }
    }
    out.push(format!("OP client_new {}", cl.bootstrap()));
    out.push(format!("OP c set storage {}", rng.pick(&["zk", "kafka"])));
    out.push("OP c set retry_backoff_ms 0".into());
    out.push("OP c set retry_max 1".into());
    out.push("OP c load_metadata_all".into());
    let topics: Vec<String> = cl.topics.iter().map(|t| h(&t.name)).collect();
    let call = |rng: &mut Rng, d: &mut Dist| -> String {
        let t = rng.pick(&cl.topics);
        let p = rng.below(t.leaders.len() as u64);
        match rng.below(10) {
            7 | 8 => {
                // one call, several brokers: a record for every partition of the cluster
                let acks = if rng.chance(1, 4) { 0 } else { 1 };
                bump(d, if acks == 0 { "api-produce-noack-all-brokers" } else { "api-produce-acks-all-brokers" });
                let mut line = format!("OP c produce {} 1 0", acks);
                for t in &cl.topics {
                    for p in 0..t.leaders.len() {
                        line.push_str(&format!(" {} {} ~ 76{:02x}", h(&t.name), p, p));
                    }
                }
                line
            }
            9 => {
                bump(d, "api-fetch-all-brokers");
                let mut line = String::from("OP c fetch_messages");
                for t in &cl.topics {
                    for p in 0..t.leaders.len() {
                        line.push_str(&format!(" {} {} 0 -1", h(&t.name), p));
                    }
                }
                line
            }
            0 => {
                bump(d, "api-offsets");
                format!("OP c fetch_offsets {} {}", rng.pick(&[-1i64, -2]), topics.join(" "))
            }
            1 => {
                bump(d, "api-list-offsets");
                format!("OP c list_offsets {} {}", rng.pick(&[-1i64, -2]), topics.join(" "))
            }
            2 => {
                bump(d, "api-fetch");
                format!("OP c fetch_messages {} {} 0 -1", h(&t.name), p)
            }
            3 => {
                bump(d, "api-produce-acks");
                format!("OP c produce 1 1 0 {} {} ~ 7631", h(&t.name), p)
            }
            4 => {
                bump(d, "api-produce-noack");
                format!("OP c produce 0 1 0 {} {} ~ 7632", h(&t.name), p)
            }
            5 => {
                bump(d, "api-commit");
                format!("OP c commit_offsets {} {} {} 3", h("grp"), h(&t.name), p)
            }
            _ => {
                bump(d, "api-group-fetch");
                format!("OP c fetch_group_offsets {} {} {}", h("grp"), h(&t.name), p)
            }
        }
    };
    let rounds = 1 + rng.below(3);
    for _ in 0..rounds {
        // the stream script for the next call
        match rng.below(10) {
            8 | 9 => {
                // the stream takes part of a frame, then a later write of the same frame times out (or fails)
                bump(d, "stream-write-timeout-after-partial-write");
                let cs: Vec<String> = (0..(1 + rng.below(3))).map(|_| (1 + rng.below(30)).to_string()).collect();
                out.push(format!("H write_chunks {}", cs.join(",")));
                out.push(format!("H {} {}", rng.pick(&["timeout_send", "timeout_send", "fail_send"]), 1 + rng.below(cs.len() as u64)));
            }
            7 => {
                // a read times out part-way through a reply (after the size, inside the body); the rest arrives late
                bump(d, "stream-timeout-inside-reply");
                out.push(format!("H read_chunks {}", ["4,3", "4,1,2", "2,2,5", "4,8,1"][rng.below(4) as usize]));
                out.push(format!("H timeout_read {}", 1 + rng.below(3)));
            }
            0 => {
                bump(d, "stream-short-writes");
                let cs: Vec<String> = (0..(1 + rng.below(6))).map(|_| (1 + rng.below(40)).to_string()).collect();
                out.push(format!("H write_chunks {}", cs.join(",")));
            }
            1 => {
                bump(d, "stream-short-reads");
                let cs: Vec<String> = (0..(1 + rng.below(8))).map(|_| (1 + rng.below(6)).to_string()).collect();
                out.push(format!("H read_chunks {}", cs.join(",")));
            }
            2 => {
                bump(d, "stream-write-error");
                out.push(format!("H fail_send {}", rng.below(2)));
            }
            3 => {
                bump(d, "stream-read-error");
                out.push(format!("H fail_recv {}", rng.below(2)));
            }
            4 => {
                bump(d, "stream-read-timeout-late-reply");
                out.push(format!("H timeout_recv {}", rng.below(2)));
            }
            5 => {
                bump(d, "stream-eof");
                out.push(format!("H eof_read {}", rng.below(4)));
                if rng.chance(1, 2) {
                    out.push(format!("H read_chunks {}", (1 + rng.below(3)).to_string()));
                }
            }
            _ => {
                bump(d, "stream-normal");
            }
        }
        out.push(call(rng, d));
        out.push("H clear_faults".into());
        // follow-up calls on the same client
        out.push(call(rng, d));
        out.push(call(rng, d));
    }
    out
}


/// a message-set tree: entries are plain messages or wrappers (gzip / snappy) around a sub-tree, up to `depth` levels;
/// offsets strictly increase.  Returns (bytes, first offset, last offset).
pub fn set_tree(rng: &mut Rng, d: &mut Dist, depth: u32, off: &mut i64, n: u64) -> (Vec<u8>, i64, i64) {
    let mut out = Vec::new();
    let first = *off;
    let mut last = *off;
    for _ in 0..n {
        if depth > 0 && rng.chance(2, 5) {
            let codec = 1 + rng.below(2) as u8;
            let k = 1 + rng.below(3);
            let (inner, _f, l) = set_tree(rng, d, depth - 1, off, k);
            bump(d, &format!("wrapper-depth-{}", depth));
            out.extend(real_wrapper(rng, codec, l, &inner));
            last = l;
        } else {
            let key = if rng.chance(1, 3) { None } else { Some(rng.rbytes(0, 6)) };
            let val = match rng.below(8) {
                0 => None,
                1 => Some(vec![]),
                2 => Some(rng.bytes(84)),
                3 => {
                    let n = 100 + rng.below(900) as usize;
                    Some(rng.bytes(n))
                }
                _ => Some(rng.rbytes(1, 40)),
            };
            bump(d, "plain-entry");
            out.extend(raw_msg(*off, 0, key.as_deref(), val.as_deref(), 0));
            last = *off;
            *off += 1 + if rng.chance(1, 6) { rng.below(3) as i64 } else { 0 };
        }
    }
    (out, first, last)
}

/// C18: logs over plain / compressed / nested (to three levels) entries; results of low-level fetches and of polls are
/// kept alive while later calls on the same client, allocation churn, moves (box / vec / another thread) and drops of
/// *other* results happen, and are re-read after each step.
pub fn gen_c18(rng: &mut Rng, d: &mut Dist, _idx: u64) -> Vec<String> {
    let cl = Cluster::random(rng, 2, false);
    let mut out = cl.setup_lines();
    let mut ends: Vec<(String, usize, i64, usize)> = Vec::new();
    for t in &cl.topics {
        for p in 0..t.leaders.len() {
            let mut off = rng.below(3) as i64;
            let mut bytes = 0;
            let nb = 1 + rng.below(4);
            for _ in 0..nb {
                let depth = *rng.pick(&[0u32, 1, 1, 2, 2, 3]);
                let ne = 1 + rng.below(3);
                let (bs, f, l) = set_tree(rng, d, depth, &mut off, ne);
                bytes += bs.len();
                out.push(format!("APPENDRAW {} {} {} {} {}", h(&t.name), p, f, l, hex(&bs)));
            }
            // now and then a log large enough for replies beyond the network layer's first buffer (64 KiB)
            if rng.chance(1, 40) {
                bump(d, "log-over-64KiB");
                for _ in 0..(70 + rng.below(40)) {
                    let v = rng.rbytes(900, 400);
                    let m = raw_msg(off, 0, None, Some(&v), 0);
                    bytes += m.len();
                    out.push(format!("APPENDRAW {} {} {} {} {}", h(&t.name), p, off, off, hex(&m)));
                    off += 1;
                }
            }
            ends.push((t.name.clone(), p, off, bytes));
        }
    }
    out.push(format!("OP client_new {}", cl.bootstrap()));
    out.push("OP c load_metadata_all".into());
    let with_consumer = rng.chance(1, 2);
    if with_consumer {
        bump(d, "with-consumer");
        let ts: Vec<String> = cl.topics.iter().map(|t| format!("topic={}", h(&t.name))).collect();
        out.push(format!("OP consumer_create hosts={} fallback=earliest maxbytes={} {}", cl.bootstrap(), 1 << 20, ts.join(" ")));
    }
    let fetch = |rng: &mut Rng, out: &mut Vec<String>| {
        let mut line = String::from("OP c fetch_keep");
        let k = 1 + rng.below(ends.len() as u64) as usize;
        let start = rng.below(ends.len() as u64) as usize;
        for i in 0..k {
            let (t, p, end, bytes) = &ends[(start + i) % ends.len()];
            let off = if rng.chance(1, 2) { 0 } else { rng.below(*end as u64 + 1) as i64 };
            let mb = if rng.chance(3, 4) { 1 << 20 } else { 30 + rng.below(*bytes as u64 + 40) };
            line.push_str(&format!(" {} {} {} {}", h(t), p, off, mb));
        }
        out.push(line);
    };
    let mut kept = 0usize;
    let steps = 4 + rng.below(10);
    for _ in 0..steps {
        match rng.below(10) {
            0 | 1 | 2 => {
                bump(d, "op-fetch_keep");
                fetch(rng, &mut out);
                kept += 1;
            }
            3 if with_consumer => {
                bump(d, "op-poll_keep");
                out.push("OP poll_keep".into());
                kept += 1;
            }
            4 => {
                bump(d, "op-churn");
                out.push(format!("OP churn {}", 1 + rng.below(3)));
            }
            5 => {
                let how = *rng.pick(&["box", "vec", "thread"]);
                bump(d, &format!("op-move-{}", how));
                out.push(format!("OP keep_move {}", how));
            }
            6 if kept > 1 => {
                bump(d, "op-drop-other");
                out.push(format!("OP keep_drop {}", rng.below(kept as u64)));
            }
            7 => {
                // an unrelated call on the same client between reads
                bump(d, "op-other-call");
                let (t, _, _, _) = &ends[rng.below(ends.len() as u64) as usize];
                out.push(format!("OP c fetch_topic_offsets -1 {}", h(t)));
            }
            _ => {
                bump(d, "op-fetch_messages");
                let mut tmp = Vec::new();
                fetch(rng, &mut tmp);
                out.push(tmp[0].replace("fetch_keep", "fetch_messages"));
            }
        }
        out.push("OP keep_check".into());
    }
    out.push("OP churn 2".into());
    out.push("OP keep_check".into());
    out
}


thread_local! {
    /// (base seed, base scenario, replies of its unmutated run: (request index, api key, payload))
    static C13_BASE: std::cell::RefCell<Option<(u64, Vec<String>, Vec<(usize, i16, Vec<u8>)>)>> = std::cell::RefCell::new(None);
}

/// the replies a scenario receives when nothing is tampered with
pub fn replies_of(lines: &[String]) -> Vec<(usize, i16, Vec<u8>)> {
    let trace = crate::check::trace_scenario(lines);
    let mut out = Vec::new();
    let mut idx = 0usize;
    let mut i = 0;
    while i < trace.len() {
        if let Some(rest) = trace[i].strip_prefix("REQ ") {
            let frame = crate::lean::unhex(rest.split(' ').nth(1).unwrap_or(""));
            let api = if frame.len() >= 6 { i16::from_be_bytes([frame[4], frame[5]]) } else { -1 };
            if let Some(p) = trace.get(i + 1).and_then(|l| l.strip_prefix("RESP ")) {
                out.push((idx, api, crate::lean::unhex(p)));
            }
            idx += 1;
        }
        i += 1;
    }
    out
}

/// C13: a valid history of public operations (client, consumer and producer layers, taken from the other properties'
/// generators) in which one reply (sometimes two) is replaced by hostile bytes: every length / count / size field x
/// boundary values, bit flips, truncation (consistent and mid-stream), random bytes, replies inconsistent with the
/// request (other names, ids, duplicated / dropped / swapped elements, counts), hostile compressed payloads, deep nesting.
/// Groups of 48 consecutive cases share one base history; even cases walk the (reply, field, value) grid systematically.
/// C13: well-formed replies describing a cluster of an unusual shape (topics whose partitions are all leaderless or led by a
/// node the reply does not list, topics without partitions, a coordinator that is no listed broker), and every layer's
/// operations on them: no reply of this kind may do more than make a call fail
pub fn gen_c13_shapes(rng: &mut Rng, d: &mut Dist) -> Vec<String> {
    bump(d, "unusual-cluster-shape");
    let nb = 1 + rng.below(2) as i32;
    let mut out: Vec<String> = (1..=nb).map(|i| format!("BROKER {} {} 9092", i, h(&format!("b{}", i)))).collect();
    let mut names: Vec<(String, usize)> = Vec::new();
    let kinds = rng.below(8) + 1;
    if kinds & 1 != 0 {
        let n = *rng.pick(&[1usize, 2, 5]);
        bump(d, "shape-all-leaderless");
        out.push(format!("TOPIC {} {}", h("dark"), n));
        names.push(("dark".into(), n));
    }
    if kinds & 2 != 0 {
        bump(d, "shape-no-partitions");
        out.push(format!("TOPIC {} 0", h("void")));
        names.push(("void".into(), 0));
    }
    if kinds & 4 != 0 {
        let n = *rng.pick(&[1usize, 3]);
        bump(d, "shape-leader-not-listed");
        out.push(format!("TOPIC {} {}", h("lost"), n));
        for p in 0..n {
            out.push(format!("LEADER {} {} 99", h("lost"), p));
        }
        names.push(("lost".into(), n));
    }
    if kinds & 8 != 0 || rng.chance(1, 2) {
        let n = 1 + rng.below(3) as usize;
        out.push(format!("TOPIC {} {}", h("fine"), n));
        for p in 0..n {
            if rng.chance(3, 4) {
                out.push(format!("LEADER {} {} {}", h("fine"), p, 1 + rng.below(nb as u64)));
            }
        }
        names.push(("fine".into(), n));
    }
    out.push(format!("COORD {}", if rng.chance(1, 4) { 99 } else { 1 }));
    let boot = h("b1:9092");
    // every layer on top of one client with a small retry limit and no back-off
    out.push(format!("OP client_new {}", boot));
    out.push("OP c set retry_backoff_ms 0".into());
    out.push(format!("OP c set retry_max {}", rng.below(3)));
    out.push("OP c load_metadata_all".into());
    let rec = |rng: &mut Rng, names: &[(String, usize)], i: u32| -> String {
        let (t, n) = rng.pick(names).clone();
        let p: i64 = if rng.chance(1, 3) { rng.range(0, n as i64) } else { -1 };
        let k = if rng.chance(1, 2) { "-".to_string() } else { hex(&rng.bytes(3)) };
        format!(" {} {} {} {:08x}", h(&t), p, k, i)
    };
    match rng.below(3) {
        0 => {
            bump(d, "shape-producer");
            let mut opts = String::new();
            if rng.chance(1, 2) {
                opts.push_str(&format!(" partitioner={}", rng.below(5)));
            }
            out.push(format!("OP producer_create client{}", opts));
            let mut i = 0u32;
            for _ in 0..(2 + rng.below(3)) {
                if rng.chance(1, 3) {
                    i += 1;
                    out.push(format!("OP send{}", rec(rng, &names, i)));
                } else {
                    let mut line = String::from("OP send_all");
                    for _ in 0..(1 + rng.below(4)) {
                        i += 1;
                        line.push_str(&rec(rng, &names, i));
                    }
                    out.push(line);
                }
            }
        }
        1 => {
            bump(d, "shape-consumer");
            let mut opts: Vec<String> = Vec::new();
            for (t, n) in &names {
                if rng.chance(2, 3) {
                    if rng.chance(1, 2) || *n == 0 {
                        opts.push(format!("topic={}", h(t)));
                    } else {
                        opts.push(format!("tp={}:{}", h(t), (0..*n).filter(|_| rng.chance(2, 3)).map(|p| p.to_string()).collect::<Vec<_>>().join(",")));
                    }
                }
            }
            if rng.chance(2, 3) {
                opts.push(format!("group={}", h("grp")));
                opts.push(format!("storage={}", rng.pick(&["zk", "kafka"])));
            }
            opts.push(format!("fallback={}", rng.pick(&["earliest", "latest"])));
            rng.shuffle(&mut opts);
            out.push(format!("OP consumer_create client {}", opts.join(" ")));
            out.push("OP subscriptions".into());
            for _ in 0..(2 + rng.below(3)) {
                let (t, n) = rng.pick(&names).clone();
                match rng.below(4) {
                    0 | 1 => out.push("OP poll".into()),
                    2 => out.push(format!("OP consume {} {} {}", h(&t), rng.range(0, n as i64), rng.below(3))),
                    _ => out.push("OP commit".into()),
                }
            }
        }
        _ => {
            bump(d, "shape-client");
            out.push(format!("OP c set storage {}", rng.pick(&["zk", "kafka"])));
            out.push("OP c topics".into());
            let ts: Vec<String> = names.iter().map(|(t, _)| h(t)).collect();
            for _ in 0..(2 + rng.below(4)) {
                let (t, n) = rng.pick(&names).clone();
                let p = rng.range(0, n as i64);
                match rng.below(7) {
                    0 => out.push(format!("OP c fetch_offsets {} {}", rng.pick(&[-1i64, -2]), ts.join(" "))),
                    1 => out.push(format!("OP c list_offsets -1 {}", ts.join(" "))),
                    2 => out.push(format!("OP c fetch_messages {} {} 0 -1", h(&t), p)),
                    3 => out.push(format!("OP c produce 1 1 0 {} {} ~ aa", h(&t), p)),
                    4 => out.push(format!("OP c commit_offsets {} {} {} 3", h("grp"), h(&t), p)),
                    5 => out.push(format!("OP c fetch_group_topic_offset {} {}", h("grp"), h(&t))),
                    _ => out.push(format!("OP c fetch_group_offsets {} {} {}", h("grp"), h(&t), p)),
                }
            }
        }
    }
    out
}

/// C13: what the client remembers (broker table, partition leaders, group coordinators) against the life cycle of its
/// metadata: resets, reloads, partial loads, brokers leaving, coordinators moving - in every order, with every kind of call
/// in between.  All replies are well-formed; none may do more than make a call fail.
pub fn gen_c13_lifecycle(rng: &mut Rng, d: &mut Dist) -> Vec<String> {
    bump(d, "metadata-lifecycle");
    let mut cl = Cluster::random(rng, 3, true);
    if cl.brokers.len() < 2 {
        cl.brokers.push((2, "b2".into(), 9092));
    }
    let mut out = cl.setup_lines();
    out.push(format!("COORD {}", rng.pick(&cl.brokers).0));
    out.push(format!("OP client_new {}", cl.bootstrap()));
    out.push(format!("OP c set storage {}", rng.pick(&["zk", "kafka"])));
    out.push("OP c set retry_backoff_ms 0".into());
    out.push(format!("OP c set retry_max {}", rng.below(3)));
    out.push("OP c load_metadata_all".into());
    let groups = ["grp", "grp2"];
    let call = |rng: &mut Rng, cl: &Cluster| -> String {
        let t = rng.pick(&cl.topics);
        let p = rng.below(t.leaders.len() as u64);
        let g = h(*rng.pick(&groups[..]));
        match rng.below(7) {
            0 => format!("OP c commit_offsets {} {} {} 5", g, h(&t.name), p),
            1 | 2 => format!("OP c fetch_group_offsets {} {} {}", g, h(&t.name), p),
            3 => format!("OP c fetch_group_topic_offset {} {}", g, h(&t.name)),
            4 => format!("OP c produce 1 1 0 {} {} ~ aa", h(&t.name), p),
            5 => format!("OP c fetch_messages {} {} 0 -1", h(&t.name), p),
            _ => format!("OP c fetch_offsets -1 {}", h(&t.name)),
        }
    };
    // warm what can be remembered
    out.push(call(rng, &cl));
    out.push(format!("OP c fetch_group_offsets {} {} 0", h("grp"), h(&cl.topics[0].name)));
    for _ in 0..(2 + rng.below(5)) {
        match rng.below(6) {
            0 => {
                bump(d, "lifecycle-reset");
                out.push("OP c reset_metadata".into());
            }
            1 => {
                bump(d, "lifecycle-load-all");
                out.push("OP c load_metadata_all".into());
            }
            2 => {
                bump(d, "lifecycle-load-one");
                out.push(format!("OP c load_metadata {}", h(&rng.pick(&cl.topics).name)));
            }
            3 => {
                if cl.brokers.len() > 1 {
                    bump(d, "lifecycle-brokers-leave");
                    let first = cl.brokers[0].0;
                    for b in cl.brokers.iter().skip(1) {
                        out.push(format!("DELBROKER {}", b.0));
                    }
                    cl.brokers.truncate(1);
                    for tt in cl.topics.iter_mut() {
                        for p in 0..tt.leaders.len() {
                            if tt.leaders[p] >= 0 {
                                tt.leaders[p] = first;
                                out.push(format!("LEADER {} {} {}", h(&tt.name), p, first));
                            }
                        }
                    }
                    out.push(format!("COORD {}", first));
                    // the usual reaction to lost brokers: load everything again
                    if rng.chance(2, 3) {
                        out.push("OP c load_metadata_all".into());
                    }
                }
            }
            4 => {
                bump(d, "lifecycle-coordinator-moves");
                out.push(format!("COORD {}", rng.pick(&cl.brokers).0));
            }
            _ => {}
        }
        for _ in 0..(1 + rng.below(2)) {
            out.push(call(rng, &cl));
        }
    }
    out
}

pub fn gen_c13(rng: &mut Rng, d: &mut Dist, idx: u64) -> Vec<String> {
    const GROUP: u64 = 48;
    if idx % 12 == 11 || idx % 24 == 8 {
        // idx % 24 == 8: a consumer whose partitions wait behind large entries, served by brokers that answer more than
        // they were asked (well-formed, all subscribed): the consumer's queues and counters must cope
        if idx % 24 == 8 {
            bump(d, "over-answering-brokers");
            if rng.chance(1, 2) {
                let mut sc = gen_c17(rng, d, idx);
                let at = sc.iter().position(|l| l.starts_with("OP ")).unwrap_or(sc.len());
                sc.insert(at, "FETCHSHAPE 1 3".into());
                sc.insert(at, "FETCHSHAPE 2 3".into());
                return sc;
            }
            // every partition stuck behind an entry that needs several doublings: the fetches of single partitions are
            // answered with all of them, again and again
            let np = 2 + rng.below(2) as usize;
            let base = *rng.pick(&[64usize, 100]);
            let mut sc = vec![format!("BROKER 1 {} 9092", h("b1")), format!("TOPIC {} {}", h("t"), np)];
            for p in 0..np {
                sc.push(format!("LEADER {} {} 1", h("t"), p));
                let big = raw_msg(0, 0, None, Some(&vec![0xEEu8; base * *rng.pick(&[5usize, 9, 40])]), 0);
                sc.push(format!("APPENDRAW {} {} 0 0 {}", h("t"), p, hex(&big)));
                sc.push(format!("APPEND {} {} plain 1 ~ 01", h("t"), p));
            }
            sc.push("FETCHSHAPE 1 3".into());
            sc.push(format!(
                "OP consumer_create hosts={} topic={} fallback=earliest maxbytes={} retrylimit={}",
                h("b1:9092"),
                h("t"),
                base,
                rng.pick(&[100_000usize, base * 4, base * 64])
            ));
            for _ in 0..(8 + rng.below(8)) {
                sc.push("OP poll".into());
            }
            return sc;
        }
        return gen_c13_shapes(rng, d);
    }
    if idx % 12 == 5 {
        return gen_c13_lifecycle(rng, d);
    }
    let group = idx / GROUP;
    let cached = C13_BASE.with(|c| c.borrow().as_ref().map(|(g, _, _)| *g) == Some(group));
    if !cached {
        // the base history is a function of the group number only (and of the run's seed through `rng` of the first case)
        let bases: [(&str, crate::check::Gen); 18] = [
            ("c02-fetch", gen_c02),
            ("c10-offsets", gen_c10),
            ("c12-producer", gen_c12),
            ("c05-produce", gen_c05),
            ("c08-consumer-commit", gen_c08),
            ("c01-consumer-poll", gen_c01),
            ("c14-group", gen_c14),
            ("c07-consumer-create", gen_c07),
            ("c06-metadata", gen_c06),
            ("c17-retry-sizes", gen_c17),
            ("c19-consumer", gen_c19),
            ("c18-nested", gen_c18),
            ("c11-error-codes", gen_c11),
            ("c16-settings", gen_c16),
            ("c20-unknown-topics", gen_c20),
            ("c15-byte-stream", gen_c15),
            ("c03-produce-crc", gen_c03),
            ("c04-fetch-crc", gen_c04),
        ];
        let (name, g) = bases[(group % bases.len() as u64) as usize];
        bump(d, &format!("base-{}", name));
        let mut scratch = Dist::new();
        let sub = rng.next() % 1000;
        let mut base = g(rng, &mut scratch, sub);
        // long draining tails add nothing here
        if base.len() > 120 {
            base.truncate(120);
        }
        if std::env::var("KH_DEBUG").is_ok() {
            eprintln!("c13 base {} group {} lines {}", name, group, base.len());
        }
        let replies = replies_of(&base);
        if std::env::var("KH_DEBUG").is_ok() {
            eprintln!("   replies {}", replies.len());
        }
        C13_BASE.with(|c| *c.borrow_mut() = Some((group, base, replies)));
    }
    let (base, replies) = C13_BASE.with(|c| {
        let b = c.borrow();
        let (_, base, replies) = b.as_ref().unwrap();
        (base.clone(), replies.clone())
    });
    if replies.is_empty() {
        bump(d, "no-replies");
        return base;
    }
    let mut out = Vec::new();
    let within = idx % GROUP;
    if std::env::var("KH_DEBUG").is_ok() {
        eprintln!("   case {} within {}", idx, within);
    }
    if within % 2 == 0 {
        // systematic: spread over the grid of all (reply, field, boundary value) of this history
        let total: usize = replies.iter().map(|(_, api, p)| crate::hostile::systematic_count(*api, p)).sum();
        let mut i = ((within / 2) as usize * 7919 + (group as usize) * 104729) % total.max(1);
        for (k, api, p) in &replies {
            let n = crate::hostile::systematic_count(*api, p);
            if i < n {
                let (raw, label) = crate::hostile::systematic(*api, p, i);
                let kind = label.split('@').next().unwrap_or("").split('=').next().unwrap_or("").to_string();
                bump(d, &format!("api{}-field-{}", api, kind));
                out.push(format!("H rawreply {} {}", k, hex(&raw)));
                break;
            }
            i -= n;
        }
    } else if replies.iter().any(|r| r.1 == 1) && group % 2 == 0 && within / 2 < 21 {
        // histories with fetches: every hostile compressed payload and a ladder of nesting depths, on a random fetch reply
        // the slots taken by the shape / lifecycle histories above leave every third j unused: shift by the group number so
        // that every payload and every depth of the ladder comes up
        let j = (within / 2 + group / 2) % 21;
        let cands: Vec<&(usize, i16, Vec<u8>)> = replies.iter().filter(|r| r.1 == 1).collect();
        let (k, _, p) = (*rng.pick(&cands)).clone();
        let w = crate::hostile::walk(1, &p);
        let corr = p[..4.min(p.len())].to_vec();
        let t = w.first_topic.clone().unwrap_or_default();
        let part = w.first_partition.unwrap_or(0);
        let set = if j < 16 {
            let (codec, value, label) = crate::hostile::hostile_compressed(rng, j);
            bump(d, &format!("api1-compressed-{}", label));
            // sometimes behind a plain message and inside another wrapper
            let mut set = Vec::new();
            if rng.chance(1, 3) {
                set.extend(raw_msg(4, 0, None, Some(b"plain"), 0));
            }
            set.extend(raw_msg(5, codec, None, Some(&value), 0));
            if rng.chance(1, 4) {
                let c = 1 + rng.below(2) as u8;
                real_wrapper(rng, c, 5, &set)
            } else {
                set
            }
        } else {
            let levels = [15usize, 16, 17, 300, 1200][(j - 16) as usize];
            bump(d, &format!("api1-nested-{}", levels));
            let mix = rng.chance(1, 2);
            crate::hostile::nested_set(rng, levels, mix)
        };
        let payload = crate::hostile::fetch_payload(&corr, &t, part, 100, &set);
        if payload.len() < 65000 {
            out.push(format!("H rawreply {} {}", k, hex(&crate::hostile::frame(&payload))));
        }
    } else {
        let nmut = if rng.chance(1, 8) { 2 } else { 1 };
        for _ in 0..nmut {
            // stratified by API so that rare replies are hit as often as frequent ones
            let mut apis: Vec<i16> = replies.iter().map(|r| r.1).collect();
            apis.sort();
            apis.dedup();
            let api = *rng.pick(&apis);
            let cands: Vec<&(usize, i16, Vec<u8>)> = replies.iter().filter(|r| r.1 == api).collect();
            let (k, _, p) = (*rng.pick(&cands)).clone();
            let (raw, label) = crate::hostile::mutate(rng, api, &p);
            bump(d, &format!("api{}-{}", api, label));
            out.push(format!("H rawreply {} {}", k, hex(&raw)));
        }
    }
    out.extend(base);
    out
}


/// the producer layer on top of a history: a producer built in every way the builder offers (options in random order,
/// from hosts or from the scenario's client), then `send_all` / `send` of records with explicit partitions
pub fn producer_block(rng: &mut Rng, d: &mut Dist, cl: &Cluster, out: &mut Vec<String>, uniq: &mut u32, from_client: bool) {
    bump(d, "via-producer");
    let mut opts: Vec<String> = Vec::new();
    if rng.chance(2, 3) {
        opts.push(format!("acks={}", rng.pick(&[1i64, -1, 1, 0])));
    }
    if rng.chance(1, 2) {
        opts.push(format!("acktimeout={}:{}", rng.below(40), rng.below(1000) * 1_000_000));
    }
    if rng.chance(1, 2) {
        opts.push(format!("partitioner={}", rng.below(5)));
        bump(d, "producer-with-partitioner");
    }
    if rng.chance(1, 2) {
        opts.push(format!("compression={}", rng.below(3)));
    }
    if rng.chance(1, 2) {
        opts.push(format!("clientid={}", hex(&rng.rbytes(1, 6))));
    }
    if rng.chance(1, 4) {
        opts.push(format!("idle={}", rng.pick(&[0u64, 60_000, 540000])));
    }
    rng.shuffle(&mut opts);
    let from = if from_client { "client".to_string() } else { format!("hosts={}", cl.bootstrap()) };
    out.push(format!("OP producer_create {} {}", from, opts.join(" ")));
    for _ in 0..(1 + rng.below(3)) {
        let single = rng.chance(1, 3);
        let mut line = String::from(if single { "OP send" } else { "OP send_all" });
        let n = if single { 1 } else { 1 + rng.below(6) };
        let mut any = false;
        for _ in 0..n {
            *uniq += 1;
            let t = rng.pick(&cl.topics);
            let led: Vec<usize> = (0..t.leaders.len()).filter(|&p| t.leaders[p] >= 0).collect();
            if led.is_empty() {
                continue;
            }
            let p = *rng.pick(&led);
            let k = if rng.chance(1, 2) { vec![] } else { rng.bytes(2) };
            let mut v = uniq.to_be_bytes().to_vec();
            let extra = rng.below(4) as usize;
            v.extend(rng.bytes(extra));
            line.push_str(&format!(" {} {} {} {}", h(&t.name), p, if k.is_empty() { "-".to_string() } else { hex(&k) }, hex(&v)));
            any = true;
        }
        if any {
            out.push(line);
        }
    }
}
