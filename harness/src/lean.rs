//! Lock-step pipe to the compiled Lean driver (`kmodel serve`): the specification broker and,
//! at END, the model replay of the recorded trace.
use std::io::{BufRead, BufReader, Write};
use std::process::{Child, ChildStdin, ChildStdout, Command, Stdio};

pub struct Lean {
    child: Child,
    stdin: ChildStdin,
    stdout: BufReader<ChildStdout>,
    /// everything sent and received, in order (the trace)
    pub trace: Vec<String>,
}

pub fn kmodel_path() -> String {
    std::env::var("KMODEL").unwrap_or_else(|_| "/verif/lean/.lake/build/bin/kmodel".to_string())
}

impl Lean {
    pub fn spawn() -> Lean {
        let mut child = Command::new(kmodel_path())
            .arg("serve")
            .stdin(Stdio::piped())
            .stdout(Stdio::piped())
            .spawn()
            .expect("cannot start kmodel serve");
        let stdin = child.stdin.take().unwrap();
        let stdout = BufReader::new(child.stdout.take().unwrap());
        Lean { child, stdin, stdout, trace: Vec::new() }
    }

    fn read_line(&mut self) -> String {
        let mut s = String::new();
        let n = self.stdout.read_line(&mut s).expect("kmodel pipe");
        if n == 0 {
            panic!("kmodel closed the pipe");
        }
        s.trim_end().to_string()
    }

    /// a line that produces no answer (OP, RESULT, NOTE, CONNECT, IO)
    pub fn log(&mut self, line: &str) {
        self.trace.push(line.to_string());
        writeln!(self.stdin, "{}", line).expect("kmodel pipe");
    }

    /// a set-up command: answer must be OK
    pub fn cmd(&mut self, line: &str) {
        self.trace.push(line.to_string());
        writeln!(self.stdin, "{}", line).expect("kmodel pipe");
        self.stdin.flush().unwrap();
        let r = self.read_line();
        if r != "OK" {
            panic!("kmodel rejected `{}`: {}", line, r);
        }
    }

    /// a request frame: answer is RESP <hex> | NORESP | BAD …
    pub fn req(&mut self, host: &str, frame: &[u8]) -> String {
        let line = format!("REQ {} {}", hex(host.as_bytes()), hex(frame));
        self.trace.push(line.clone());
        writeln!(self.stdin, "{}", line).expect("kmodel pipe");
        self.stdin.flush().unwrap();
        let r = self.read_line();
        self.trace.push(r.clone());
        r
    }

    /// END: returns the model-vs-implementation mismatches of this scenario and starts a new one
    pub fn end(&mut self, props: &str) -> Vec<String> {
        writeln!(self.stdin, "END {}", props).expect("kmodel pipe");
        self.stdin.flush().unwrap();
        let mut out = Vec::new();
        loop {
            let l = self.read_line();
            if l.starts_with("DONE") {
                break;
            }
            out.push(l);
        }
        out
    }

    pub fn take_trace(&mut self) -> Vec<String> {
        std::mem::take(&mut self.trace)
    }
}

impl Drop for Lean {
    fn drop(&mut self) {
        let _ = self.child.kill();
        let _ = self.child.wait();
    }
}

pub fn hex(b: &[u8]) -> String {
    if b.is_empty() {
        return "-".to_string();
    }
    let mut s = String::with_capacity(b.len() * 2);
    for x in b {
        s.push_str(&format!("{:02x}", x));
    }
    s
}

pub fn unhex(s: &str) -> Vec<u8> {
    if s == "-" {
        return vec![];
    }
    (0..s.len() / 2).map(|i| u8::from_str_radix(&s[2 * i..2 * i + 2], 16).unwrap()).collect()
}

pub fn opt_hex(b: Option<&[u8]>) -> String {
    match b {
        None => "~".to_string(),
        Some(b) => hex(b),
    }
}
