//! One deterministic PRNG for every random choice (splitmix64), so that a seed replays exactly.
pub struct Rng(pub u64);

impl Rng {
    pub fn new(seed: u64) -> Rng {
        Rng(seed.wrapping_mul(0x9E37_79B9_7F4A_7C15) ^ 0xD1B5_4A32_D192_ED03)
    }
    pub fn next(&mut self) -> u64 {
        self.0 = self.0.wrapping_add(0x9E37_79B9_7F4A_7C15);
        let mut z = self.0;
        z = (z ^ (z >> 30)).wrapping_mul(0xBF58_476D_1CE4_E5B9);
        z = (z ^ (z >> 27)).wrapping_mul(0x94D0_49BB_1331_11EB);
        z ^ (z >> 31)
    }
    /// uniform in 0..n (n > 0)
    pub fn below(&mut self, n: u64) -> u64 {
        self.next() % n
    }
    pub fn range(&mut self, lo: i64, hi: i64) -> i64 {
        lo + (self.next() % ((hi - lo + 1) as u64)) as i64
    }
    pub fn chance(&mut self, num: u64, den: u64) -> bool {
        self.below(den) < num
    }
    pub fn pick<'a, T>(&mut self, xs: &'a [T]) -> &'a T {
        &xs[self.below(xs.len() as u64) as usize]
    }
    pub fn bytes(&mut self, n: usize) -> Vec<u8> {
        (0..n).map(|_| self.next() as u8).collect()
    }
    /// `lo + below(span)` random bytes
    pub fn rbytes(&mut self, lo: usize, span: u64) -> Vec<u8> {
        let n = lo + self.below(span) as usize;
        self.bytes(n)
    }
    pub fn shuffle<T>(&mut self, xs: &mut Vec<T>) {
        for i in (1..xs.len()).rev() {
            let j = self.below(i as u64 + 1) as usize;
            xs.swap(i, j);
        }
    }
    pub fn fork(&mut self) -> Rng {
        Rng(self.next())
    }
}
