"""Per-property tables used by bin/check: registered obligations, evidence texts."""

TRUSTED_BASE = [
    "Lean 4.33 kernel; axioms propext, Classical.choice, Quot.sound only (audited per theorem on every run)",
    "the specification in lean/KafkaModel/Spec (my reading of the Kafka v0 protocol and of a conforming broker)",
    "fidelity of the hand-written model lean/KafkaModel/Model to /repo/src: checked by the correspondence run (sampling), not proved",
    "the Rust harness, the verif_hooks transport hook, bin/check, rustc/cargo",
]

TABLE = {
    "C07": {
        "obligations": ["C07_start", "C07_committed_eq_earliest", "C07_committed_eq_latest", "C07_committed_below", "C07_committed_above",
                        "C07_nowhere_else", "C07_by_time_fails", "C07_no_commit_v0"],
        "what": "Theorems about the per-partition decision of load_fetch_states as the model has it (startOffset over consumedOf): for every integer earliest, latest, reported group offset and every fallback it equals the specification specStart (committed offset iff earliest <= committed <= latest, else the fallback position, -1 / v0 code 3 = nothing committed); boundaries committed = earliest and committed = latest are instances; the start is never anything but the committed, earliest or latest offset; a by-time fallback without a valid commit makes creation fail. Correspondence + judge: boundary lattice committed in {none, e-1, e, e+1, mid, l-1, l, l+1} x (e = l | e < l) x fallback x group set/unset x storage over multi-topic / multi-partition / multi-broker assignments; the offset field of the first fetch per partition is compared with the specification computed from the cluster.",
        "rule": "scenario = random cluster (1-3 brokers/topics/partitions, all led) with per-partition earliest/latest (e = l or e < l, values up to 2^33) and committed offsets on the boundary lattice, consumer with fallback earliest/latest/by-time, group set or unset, storage zk/kafka, builder options in random order; then one poll; non-trivial = a request reached a broker; distinct = distinct (results, request bytes) sequences",
        "assumptions": ["every assigned partition has a leader when the consumer is created (for a leaderless partition the code stores offset -1; outside the property's quantifier)"],
    },
    "C16": {
        "obligations": ["C16_duration", "C16_duration_invalid", "C16_consumer_set", "C16_consumer_frame", "C16_last_wins_crc",
                        "C16_last_wins_client_id", "C16_default_kept", "C16_consumer_perm", "C16_configure",
                        "C16_configure_invalid_duration", "C16_from_client", "C16_producer_frame", "C16_with_partitioner_keeps",
                        "C16_producer_perm"],
        "what": "Theorems over builders as lists of calls folded over the builder record: every call sets its own field and leaves all others alone (frame), the last call for an option wins over any prefix and suffix, an option never set keeps the default / the pre-configured client's value, any two permutations of calls setting distinct options build the same builder (consumer and producer, via Perm.foldl_eq'), with_partitioner keeps client id / acks / timeout / compression, `configure` puts exactly the builder's values in force on the client (CRC validation included) and a duration is accepted iff its milliseconds fit i32, then exact, never wrapped. Correspondence + judge: every option x boundary values x random permutations of <= 6 builder calls (options set twice, with_partitioner at any position) x from hosts / from a pre-configured client; observables: getters, client id in every header, fetch min bytes / max wait / max bytes, produce acks / timeout / codec, acceptance of a bad-CRC message, reconnects at idle time-out 0.",
        "rule": "scenario = cluster + (optionally a client pre-configured by a random subset of setters) + consumer or producer builder with 0-6 option calls in random order (durations incl. values beyond i32 ms) + get_config + poll x2 over a log with a bad-CRC message / send_all; non-trivial = a request reached a broker; distinct = distinct (operation, result) sequences",
        "assumptions": ["idle time-outs are exercised at 0 (reconnect on every use) and at values far above the run time (no reconnect); TLS security config is not exercised",
                        "assignment calls (with_topic / with_topic_partitions) are covered by C19"],
    },
    "C20": {
        "obligations": ["C20_contains", "C20_find_known", "C20_fetch_mentions", "C20_produce_unknown", "C20_produce_local_failure",
                        "C20_commit_local_failure", "C20_after_reset", "C20_offsets_unknown_topic"],
        "what": "Theorems: the membership test used by commit / group-offset fetch holds exactly for (topic, partition) pairs of the loaded metadata (C20_contains); every (topic, partition) placed in any per-broker fetch request built from any argument list has a leader in, hence is part of, the loaded metadata (C20_fetch_mentions, by induction over the argument list and the request maps); an unknown destination at any position makes produce fail with unknown-topic-or-partition with the network state untouched (C20_produce_unknown, C20_produce_local_failure), likewise commit (C20_commit_local_failure); after a reset everything is unknown. Correspondence + judge: argument lists mixing loaded / existing-but-not-loaded / non-existent topics and in-range / out-of-range / negative partitions after histories of full loads, subset loads and resets; every decoded request's topics and partitions are checked against what was loaded.",
        "rule": "scenario = cluster with >= 3 topics (some leaderless partitions) + client + history of 4-13 steps over {load_metadata_all, load_metadata(subset incl. unknown names), reset, fetch_messages, fetch_offsets, list_offsets, fetch_topic_offsets, produce (acks 0/1), commit_offsets, fetch_group_offsets, fetch_group_topic_offset} with partition ids in range / beyond / negative; non-trivial = a request reached a broker; distinct = distinct (operation, result) sequences",
        "assumptions": ["the cluster does not change between a metadata load and the calls judged against it (metadata staleness is C06's subject)"],
    },
    "C14": {
        "obligations": ["C14_policy", "C14_bound", "C14_at_most_N", "C14_success_within_limit", "C14_first_other_answer",
                        "C14_exhausted", "C14_terminates", "C14_commit_is_policy", "C14_group_fetch_is_policy",
                        "C14_relookup", "C14_no_cache"],
        "what": "Theorems: the three group operations are by definition `retrying N step` started with fuel N+1 at attempt 1 (C14_commit_is_policy, C14_group_fetch_is_policy; the look-up likewise). For every sequence of attempt verdicts and every limit N: the policy equals the explicit specification specRun (C14_policy), makes at most max(1,N) attempts (C14_at_most_N), returns success for a success within the limit, the error of the first non-retryable answer, and the *last* retryable code when the limit is used up; it never diverges by itself (C14_terminates); after 'not coordinator' the cached coordinator is erased so the next attempt looks it up again (C14_relookup, C14_no_cache). Correspondence + judge: all answer scripts of length <= 3 (exhaustively) and random ones up to length 6 over {ok, 14, 16, 15, fatal} x limits 0..5 x three operations x scripts on the operation or on the look-up x coordinator moved between brokers; number and destination of requests and results are judged against the specification.",
        "rule": "scenario = cluster with >= 2 brokers, retry limit 0..5, zero back-off, optional warm coordinator cache then coordinator moved, an answer script on the operation's API or on coordinator look-ups, one of commit_offsets / fetch_group_offsets / fetch_group_topic_offset, then a follow-up group call; indices < 2790 enumerate all scripts of length <= 3 x limits x operations; non-trivial = a request reached a broker; distinct = distinct (operation, result) sequences",
        "assumptions": ["retryable sets per operation as the code documents them: look-up {15}; commit and group-offset fetch {14, 16}; any other answer is 'the first other answer' and is returned",
                        "zero back-off: thread::sleep is not modelled"],
    },
    "C11": {
        "obligations": ["C11_table_impl", "C11_table_spec", "C11_nonzero_is_error", "C11_produce", "C11_produce_ok", "C11_offsets",
                        "C11_offset_partition", "C11_list_offset_partition", "C11_group_fetch", "C11_commit_scan", "C11_poll",
                        "C11_fetch_no_data", "C11_producer_send"],
        "what": "Theorems: (a) C11_table_impl - for every i16 wire code, what the real crate reported when all 65 536 codes were pushed through one produce response (table regenerated into Generated/ErrorTable.lean on every run, as maximal runs) equals the model's kafkaCode: kernel-checked by decide over the runs plus a soundness/coverage lemma; C11_table_spec - kafkaCode equals the specification table (0 success, 1..35 individually, anything else unknown); (b) per API: a non-zero code yields Err(kind) and no offset in produce confirmations; offset look-ups fail with TopicPartitionError naming the first failing partition in response order wherever it stands; group-offset fetch treats only code 3 as 'none'; the commit scan returns the first non-zero code; a poll fails with the first partition error and changes nothing; an erroneous partition exposes no messages. Correspondence + judge: every response kind with an injected code (-1..35, boundaries, sampled unmapped) at a random position among healthy partitions, with the broker still attaching data to the failing partition.",
        "rule": "scenario = random cluster, response order req/rev/rot, one injected error code (documented / boundary / random i16) on one partition for one of: produce, fetch, offsets, list offsets, commit, group offset fetch, coordinator look-up, consumer poll, producer send; non-trivial = a request reached a broker; distinct = distinct (operation, result) sequences",
        "assumptions": ["retry attempts limited to 1 in these scenarios (retry behaviour is C14)"],
        "technique": "Lean 4 theorems + a finite table regenerated from the implementation on every run and re-checked by `decide` (translation validation of the table), correspondence run for the propagation sites",
    },
    "C10": {
        "obligations": ["C10_metadata", "C10_produce", "C10_offsets", "C10_list_offsets", "C10_coordinator", "C10_offset_commit",
                        "C10_offset_fetch", "C10_merge_ok", "C10_group_offsets_none", "C10_group_offsets_some", "C10_confirms"],
        "what": "Theorems: for each response type (metadata, produce, offsets v0, list offsets v1, group coordinator, offset commit, offset fetch) the model's FromByte decoder applied to the specification's encoding of arbitrary well-formed content (any counts incl. zero, any in-range field values, any valid UTF-8 names, null metadata string) returns exactly that content and consumes the whole payload; merging a healthy per-broker response topic extends exactly that topic's entry by exactly its partitions and touches no other topic. (Fetch responses: C02.) Correspondence + judge: the Lean broker is the independent encoder; returned values of topics(), fetch_offsets, list_offsets, fetch_group_offsets are compared with the cluster's ground truth over unusual node ids/ports/UTF-8 hosts, extreme offsets, several brokers and response orders.",
        "rule": "scenario = wild cluster (node ids 0..2^31-1 and negative, ports 0..2^31-1, UTF-8 host/topic names, 1-3 brokers, leaderless partitions, offsets up to 2^63-1, committed offsets) with response order req/rev/rot + 2-8 calls of fetch_offsets/list_offsets/fetch_group_offsets/fetch_group_topic_offset/produce/topics; non-trivial = a request reached a broker; distinct = distinct (operation, result) sequences",
        "assumptions": ["well-formedness of the broker's response: field values within their wire types, names valid UTF-8 of at most 32767 bytes, topic names distinct within one response"],
    },
    "C09": {
        "obligations": ["C09_metadata", "C09_metadata_long_topic", "C09_unencodable_client_id", "C09_offsets", "C09_list_offsets",
                        "C09_group_coordinator", "C09_offset_fetch", "C09_offset_commit", "C09_fetch", "C09_produce",
                        "C09_frame", "C09_no_frame_on_error", "C09_correlation", "C09_parse_back"],
        "what": "Theorems: (1) Spec.parseRequest_encRequest - the specification's request grammar (parsers per API key and version, strict about trailing bytes) inverts the specification encoder on every well-formed request of all seven APIs (commit v0/v1/v2, offsets v0/v1); (2) for each request type the model's ToByte encoder (mirror of the Rust impls) equals that specification encoder applied to the request's abstract content, for any number of topics/partitions and any list (hash-map) order; (3) a string that does not fit its i16 length makes the encoder fail and frameOf produces no frame; (4) the frame's length prefix is the payload length; (5) correlation ids strictly increase below the documented wrap at 2^30. Correspondence + judge: every frame the real client writes for every public operation is parsed by Spec.parseFrame and compared with what was asked (offsets, times, max/min bytes, max wait, acks, timeout, group, versions per storage), restricted to the partitions led by the addressed broker.",
        "rule": "scenario = random cluster (up to 40 partitions / 30 extra topics) + client with random settings (client id of length 0/1/5/32767/32768, fetch settings, storage) + 2-10 public operations with generated arguments (names of length 0/32767/32768/40000, unknown names, i32/i64 extremes, empty lists, out-of-range partitions); non-trivial = at least one request frame was emitted; distinct = distinct (operation, result) sequences",
        "assumptions": ["values are within the range of their Rust types (i16/i32/i64) - the theorems carry these as hypotheses",
                        "correlation-id wrap at 2^30 calls is outside the property's quantifier (inputs x configurations)"],
    },
    "C03": {
        "obligations": ["C03_plain", "C03_wrapped", "C03_wrapped_inner", "C03_too_long"],
        "what": "Theorems: the model's message-set encoder (mirror of produce.rs:155-242: back-patched size and CRC, Option<&[u8]> encoding, per-partition wrapper) equals the specification encoder, and the specification's strict parser (exact sizes, magic 0, CRC-32 over magic..value, null<->-1, nothing left over) inverts it for every list of records whose sizes fit the 32-bit fields; with a codec the partition data is exactly one wrapper (attribute = codec id, null key, value = compressor output on the plain set). Correspondence + judge: real produce_messages with all payload shapes and codecs; every emitted partition set is parsed by Spec.parseMessageSet and wrappers are opened with the independent Lean inflate / snappy decoders (flate2 and snap themselves are parameters of the theorems).",
        "rule": "scenario = random cluster + 1-3 produce_messages calls (codec none/gzip/snappy, acks 0/1/-1) of 1-10 records with null/empty/small/multi-KiB/repetitive keys and values over 1-3 topics x 1-4 partitions; non-trivial = a produce request reached a broker; distinct = distinct (operation, result) sequences",
        "assumptions": ["each message and each set is shorter than 2^31 bytes (beyond that the Rust code returns CodecError or wraps; theorem C03_too_long covers the first)",
                        "flate2 (gzip) and snap (raw snappy) are external: abstract compressor in the theorems, checked in the run by decompressing their output with the independent Lean decoders"],
    },
    "C12": {
        "obligations": ["C12_explicit", "C12_keyed", "C12_keyed_value", "C12_keyed_pure", "C12_keyless_available",
                        "C12_rotation", "C12_unknown", "C12_nothing_available", "C12_no_partitions",
                        "C12_unassigned_rejected", "C12_empty_absent", "C12_nonempty_present", "C12_wrap_counterexample"],
        "what": "Theorems about Model.partition / partitionAll (mirror of DefaultPartitioner::partition and the send_all partitioner pass): explicit kept; keyed = XXH32(key,0) mod total count independent of counter and availability; keyless lands on an available partition; n consecutive keyless records for one topic are pairwise distinct from any counter value below the 32-bit wrap; unknown/empty topics stay unassigned. Correspondence: real Producer::send_all against the Lean broker, partition fields read from the decoded produce requests; XXH32 is the Lean implementation (check values in selftest).",
        "rule": "scenario = random cluster (1-3 brokers, 1-3 topics, 1-64 partitions, leaderless partitions) + producer (optional counter preset / compression) + 1-4 send_all calls of 1-8 explicit/keyed/keyless records; non-trivial = at least one produce request reached a broker; distinct = distinct (operation, result) sequences",
        "assumptions": ["rotation is claimed for runs that do not cross the 2^32 counter wrap (finding D21: proved counterexample C12_wrap_counterexample; not reachable in a test without 2^32 sends)",
                        "partition counts are below 2^31 (what a broker can express)"],
    },
}

HOOK_COMMITS = ["ef2149b"]

# properties not claimed yet (kept current as the work proceeds)
NOT_YET = {}
